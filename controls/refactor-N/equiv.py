"""Behavioural fingerprint of the file readers of hvsrpy.data_wrangler.

Exercises _read_saf, _read_minishark, _read_peer, _read_mseed, _read_sac,
_read_gcf, _arrange_traces, read_single and read on several hundred seeded,
randomised inputs and call sequences (valid files, damaged files, unusual
but legal argument types) and prints one line ``DIGEST <sha256>`` computed
from everything observable: returned values (bit patterns, dtypes, flags),
exception types and messages, warnings, log records, the state of the
arguments after the call (file positions, keyword dictionaries, lists) and
the files on disk.

    cd /tmp/r10/ctlN && PYTHONPATH=/tmp/r10/ctlN MPLBACKEND=Agg /venv/bin/python _control/equiv.py [--dump FILE]

"""
import gzip
import hashlib
import io
import logging
import os
import pathlib
import random
import re
import shutil
import sys
import tarfile
import tempfile
import types
import warnings
import zipfile

import numpy as np
import obspy

import hvsrpy
import hvsrpy.data_wrangler as dw

HERE = os.path.dirname(os.path.abspath(__file__))
TMP = tempfile.mkdtemp(prefix="equiv_", dir=HERE)
tempfile.tempdir = TMP  # temporary files of obspy go there too.
LINES = []


def mask(text):
    text = text.replace(TMP, "<TMP>")
    text = re.sub(r"0x[0-9a-fA-F]+", "<ADDR>", text)
    text = re.sub(r"samples at \d+", "samples at <ID>", text)
    text = re.sub(r"(tmp|obspy-)[a-z0-9_]{8}", "<TMPNAME>", text)
    return text


class Capture(logging.Handler):
    def __init__(self):
        super().__init__()
        self.records = []

    def emit(self, record):
        self.records.append((record.levelname, mask(record.getMessage())))


def describe_recording(rec):
    out = [type(rec).__name__]
    for name in ("ns", "ew", "vt"):
        comp = getattr(rec, name)
        a = comp.amplitude
        out.append((name, type(comp).__name__, a.dtype.str, a.shape, hashlib.sha256(a.tobytes()).hexdigest(),
                    bool(a.flags.c_contiguous), bool(a.flags.owndata), bool(a.flags.writeable),
                    repr(comp.dt_in_seconds), type(comp.dt_in_seconds).__name__))
    out.append((repr(rec.degrees_from_north), type(rec.degrees_from_north).__name__))
    out.append(mask(repr([(k, repr(v), type(v).__name__) for k, v in rec.meta.items()])))
    comps = [rec.ns, rec.ew, rec.vt]
    out.append(("shared", any(np.shares_memory(x.amplitude, y.amplitude) for i, x in enumerate(comps) for y in comps[i + 1:])))
    return out


def describe(value):
    if isinstance(value, hvsrpy.SeismicRecording3C):
        return describe_recording(value)
    if isinstance(value, hvsrpy.TimeSeries):
        a = value.amplitude
        return ("TimeSeries", a.dtype.str, a.shape, hashlib.sha256(a.tobytes()).hexdigest(), repr(value.dt_in_seconds))
    if isinstance(value, (list, tuple)):
        return (type(value).__name__, [describe(v) for v in value])
    return mask(repr(value))


def run(label, func, *args, after=None, **kwargs):
    """Call ``func`` and log everything that can be observed."""
    handler = Capture()
    root = logging.getLogger("hvsrpy")
    previous = root.level
    root.addHandler(handler)
    root.setLevel(logging.DEBUG)
    result = None
    with warnings.catch_warnings(record=True) as caught:
        warnings.simplefilter("always")
        try:
            result = func(*args, **kwargs)
        except Exception as e:
            outcome = ("raised", type(e).__name__, type(e).__mro__[1].__name__, mask(str(e)))
        else:
            outcome = ("returned", describe(result))
    root.removeHandler(handler)
    root.setLevel(previous)
    seen = [(w.category.__name__, mask(str(w.message))) for w in caught
            if "data_wrangler" in str(w.filename) or issubclass(w.category, (UserWarning, RuntimeWarning))]
    entry = (label, outcome, seen, handler.records, None if after is None else mask(repr(after())))
    LINES.append(repr(entry))
    return result


# ------------------------------------------------------------------ text files
SAF_PIECES = ["SESAME ASCII data format (saf) v. 1", "SESAME ASCII data format (saf) v", "NDAT = ", "SAMP_FREQ = ",
              "CH", "_ID = ", "V", "N", "E", "NORTH_ROT = ", "0", "1", "2", "3", "5", "12", "-", " ", " ", " ", "\t", "\n", "\n",
              "\n", "\r", "?", "|", "\r\n", "#", ".", "x", "٣", "\x0b", "\xa0", "45", "-7 8 9\n", "1 2 3\n", "4 5 6\r\n", "1\n2\n3\n",
              "CH0_ID = V\n", "CH1_ID = N\n", "CH2_ID = E\n", "CH1_ID = E\n", "CH2_ID = N\n", "NDAT = 2\n", "NDAT = 3\n",
              "SAMP_FREQ = 50\n", "SAMP_FREQ = 0\n", "NORTH_ROT = 15\n", "NORTH_ROT = -15\n", "NORTH_ROT = 400.5\n",
              "CH3_ID = V\n", "CH9_ID = N\n"]

MS_PIECES = ["#Sample number:\t", "#Sample rate (sps):\t", "#Gain:\t", "#Conversion factor:\t", "0", "1", "2", "3", "64", "-",
             "\t", "\t", "\t", "\n", "\n", "\r", "?", "|", " ", "x", "#", "٣", "1\t2\t3\n", "-4\t5\t-6\n", "7\t8\t9\r\n",
             "1\t2\t3\t4\n", "#Sample number:\t2\n", "#Sample number:\t3\n", "#Sample rate (sps):\t250\n",
             "#Sample rate (sps):\t0\n", "#Gain:\t4\n", "#Gain:\t0\n", "#Conversion factor:\t8\n", "#Conversion factor:\t0\n",
             "123456789012345678901234567890123456789012\t1\t2\n"]

PEER_PIECES = [", ", ",", " ", " ", "UP", "VER", "HNE", "HNN", "HNZ", "BHZ", "XXZ", "0", "9", "90", "360", "180", "270", "1000",
               "\n", "\n", "\r", "?", "|", "NPTS=", "DT=", ".", "E", "e", "+", "-", "1", "2", "5", "x", "SEC", "\t", "٣",
               "NPTS=   3, DT=   .0200 SEC\n", "NPTS= 2, DT= 0.01 SEC\n", "  .1000000E+01  -.2500000E-02   .3281133E-04\n",
               " 1.5E+01 2.5e-3 -.5E2\n", "1.5E", "1.2.3E5", "-.5E+", "Somewhere, 1/17/1994, Station, "]

SAMPLE_VALUES = [0, 1, -1, 12345, -99999, 16777217, 2**31, -2**53 - 1]


def assemble(rng, pieces, nmin, nmax):
    return "".join(rng.choice(pieces) for _ in range(rng.randint(nmin, nmax)))


def integer(rng):
    if rng.random() < 0.1:
        return str(10**rng.randint(1, 45) * rng.choice([1, -1]))
    if rng.random() < 0.3:
        return str(rng.randint(-40000, 40000))
    return str(rng.choice(SAMPLE_VALUES))


def saf_text(rng, clean):
    n = rng.randint(0, 7) if not clean else rng.randint(1, 40)
    lines = ["SESAME ASCII data format (saf) v. 1    (this line must not be modified)"]
    if clean:
        order = rng.choice(["VNE", "VEN", "VNE"])
        header = ["SAMP_FREQ = %d" % rng.choice([50, 100, 128, 200]), "NDAT = %s" % rng.choice([str(n), "%010d" % n]),
                  "START_TIME = 2021 11 22 13 31 10.000", "UNITS = Counts"]
        if rng.random() < 0.8:
            header.append("NORTH_ROT = %d" % rng.choice([0, 15, 350, 720, 90]))
        sep, eol, last = " ", rng.choice(["\n", "\n", "\n", "\r\n"]), None
    else:
        order = rng.choice(["VNE", "VEN", "NVE", "ENV", "VVN", "VN", "NEV"])
        header = ["SAMP_FREQ = %s" % rng.choice(["0", "1", "50", "100", "128", "62.5"]),
                  "NDAT = %s" % rng.choice([str(n), "%010d" % n, str(n + 1), str(max(n - 1, 0))])]
        if rng.random() < 0.7:
            header.append("NORTH_ROT = %s" % rng.choice(["0", "15", "350", "720", "-5", "12.5", "x"]))
        sep = rng.choice([" ", " ", " ", "\t", "  ", "\n", "\xa0"])
        eol = rng.choice(["\n", "\n", "\r\n", "\r", "?", "|"])
        last = rng.choice([eol, "", "\n"])
    for i, c in enumerate(order):
        header.append("CH%d_ID = %s" % (i, c))
    rng.shuffle(header)
    lines += header + ["####--------------------------------"]
    for _ in range(n):
        lines.append(sep.join(integer(rng) for _ in range(3)))
    return eol.join(lines) + (eol if last is None else last)


def minishark_text(rng, clean):
    n = rng.randint(1, 40) if clean else rng.randint(0, 7)
    if clean:
        header = ["#Sample number:\t%d" % n, "#Sample rate (sps):\t%d" % rng.choice([250, 100, 500]),
                  "#Gain:\t%d" % rng.choice([1, 8, 64]), "#Conversion factor:\t%d" % rng.choice([1, 3, 8388608]),
                  "#Start time:\t2018-11-15 04:41", "#Channels:\t3"]
        rng.shuffle(header)
        rows = ["\t".join(integer(rng) for _ in range(3)) for _ in range(n)]
        eol = rng.choice(["\n", "\n", "\r\n"])
        return eol.join(header + rows) + eol
    header = ["#Sample number:\t%d" % rng.choice([n, n, n + 1]), "#Sample rate (sps):\t%d" % rng.choice([0, 250, 100]),
              "#Gain:\t%d" % rng.choice([0, 1, 64, 10**40]), "#Conversion factor:\t%d" % rng.choice([0, 1, 3, 1000]),
              "#Other:\t12\t13\t14", "#Other2:\tabc"]
    rng.shuffle(header)
    header = header[:rng.choice([6, 6, 6, 5])]
    sep = rng.choice(["\t", "\t", "\t", " ", "\t\t"])
    rows = [rng.choice(["", "", "x", "5"]) + sep.join(integer(rng) for _ in range(rng.choice([3, 3, 3, 4, 2]))) for _ in range(n)]
    eol = rng.choice(["\n", "\n", "\r\n", "\r", "?", "|"])
    return eol.join(header + rows) + rng.choice([eol, "", "\n"])


def peer_text(rng, direction, n, dt, clean):
    lines = ["PEER NGA STRONG MOTION DATABASE RECORD",
             "Northridge-01, 1/17/1994, Alhambra - Fremont School, %s" % direction,
             "VELOCITY TIME SERIES IN UNITS OF CM/S"]
    if clean:
        lines.append("NPTS=   %d, DT=   %s SEC" % (n, dt))
        values = [rng.choice(["%.7E" % rng.uniform(-1, 1), ("%14.7E" % rng.uniform(-1, 1)).replace("0.", " ."),
                              "-.25E-02", "12.5e1", "٣.٥E1"]) for _ in range(n)]
        eol, last = "\n", "\n"
    else:
        lines.append("NPTS=%s%d, DT=%s%s SEC" % (rng.choice(["", " ", "   "]), rng.choice([n, n, n, n + 1, max(n - 1, 0)]),
                                                 rng.choice(["", " ", "   "]), dt))
        values = [rng.choice(["%.7E" % rng.uniform(-1, 1), ("%.7E" % rng.uniform(-1, 1)).replace("0.", ".").replace("E", "e"),
                              ".5E", "1.5E+400", "-.25E-02", "12.5E1"]) for _ in range(n)]
        eol = rng.choice(["\n", "\n", "\n", "\r\n", "\r"])
        last = rng.choice([eol, "", " "])
    body = ["  ".join(values[i:i + 5]) for i in range(0, len(values), 5)]
    return eol.join(lines + body) + last


COUNTER = [0]


def materialise(rng, text, how=None):
    """Turn ``text`` into an argument for a reader; returns (argument, probe)."""
    how = how or rng.choice(["str", "str", "path", "bytes", "stringio", "stringio", "stringio_at", "stringio_nl", "fd"])
    if how.startswith("stringio"):
        if how == "stringio_nl":
            source = io.StringIO(text, newline=None)
        else:
            source = io.StringIO(text)
        if how == "stringio_at":
            source.seek(rng.randint(0, len(text)))
        return source, (lambda: ("pos", source.tell(), source.closed, hashlib.sha256(source.getvalue().encode()).hexdigest()))
    COUNTER[0] += 1
    name = os.path.join(TMP, "text_%05d.%s" % (COUNTER[0], rng.choice(["txt", "saf", "minishark", "vt2", "AT2"])))
    with open(name, "w", newline="", encoding="utf-8") as f:
        f.write(text)

    def probe():
        with open(name, "rb") as f:
            return ("file", hashlib.sha256(f.read()).hexdigest())
    if how == "path":
        return pathlib.Path(name), probe
    if how == "bytes":
        return os.fsencode(name), probe
    if how == "fd":
        fd = os.open(name, os.O_RDONLY)

        def probe_fd():
            try:
                os.fstat(fd)
            except OSError:
                return ("fd", "closed") + probe()
            os.close(fd)
            return ("fd", "open") + probe()
        return fd, probe_fd
    return name, probe


def text_cases(rng, count):
    for i in range(count):
        kind = rng.choice(["saf", "saf", "minishark", "minishark", "peer", "peer", "peer", "peer_garbage"])
        clean = rng.random() < 0.5
        dfn = rng.choice([None, None, None, 0, 15.5, -20, 400, np.float64(12.5), np.int64(-3)])
        entry = rng.choice(["direct", "direct", "read_single", "read"])
        if kind == "saf":
            text = saf_text(rng, clean) if rng.random() < 0.8 else assemble(rng, SAF_PIECES, 1, 60)
            argument, probe = materialise(rng, text)
            reader = dw._read_saf
        elif kind == "minishark":
            text = minishark_text(rng, clean) if rng.random() < 0.8 else assemble(rng, MS_PIECES, 1, 60)
            argument, probe = materialise(rng, text)
            reader = dw._read_minishark
        else:
            family = rng.choice(["numeric", "numeric", "code", "mixed"])
            if family == "numeric":
                dirs = [rng.choice(["UP", "VER", "UP"]),
                        rng.choice(["0", "360", "180", "45", "135", "350", "10", "999", "181", "005"]),
                        rng.choice(["0", "90", "90", "270", "270", "225", "UP", "HNE", "720", "090"])]
            elif family == "code":
                dirs = [rng.choice(["HNZ", "BHZ", "HHZ"]), rng.choice(["HNN", "HNE", "BHN", "HNZ", "90"]),
                        rng.choice(["HNE", "HNN", "BHE", "0"])]
            else:
                dirs = [rng.choice(["UP", "VER", "0", "90", "360", "HNE", "HNN", "HNZ", "ZZZ", "1000", "up", "٣"]) for _ in range(3)]
            rng.shuffle(dirs)
            n = rng.randint(0, 12)
            dt = rng.choice([".0200", "0.01", ".005"])
            same = rng.random() < 0.6
            texts = [peer_text(rng, d, n if same else rng.choice([n, n, n, n + 1, n + 3]), rng.choice([dt] * 19 + ["1."]), clean) for d in dirs]
            if kind == "peer_garbage":
                texts[rng.randrange(3)] = assemble(rng, PEER_PIECES, 1, 60)
            how = rng.choice(["str", "path", "bytes", "stringio", "stringio_at", None])
            pairs = [materialise(rng, t, how) for t in texts]
            pairs = pairs[:rng.choice([3, 3, 3, 3, 3, 2])]
            if rng.random() < 0.05:
                pairs.append(pairs[0])
            argument = rng.choice([list, list, tuple])(p[0] for p in pairs)
            snapshot = list(argument)

            def probe(pairs=pairs, argument=argument, snapshot=snapshot):
                return [p[1]() for p in pairs], type(argument).__name__, all(a is b for a, b in zip(argument, snapshot)), len(argument)
            reader = dw._read_peer
        label = ("text", i, kind, entry)
        if entry == "direct":
            rec = run(label, reader, argument, degrees_from_north=dfn, after=probe)
        elif entry == "read_single":
            rec = run(label, hvsrpy.read_single, argument, degrees_from_north=dfn, after=probe)
        else:
            rec = run(label, hvsrpy.read, [argument], degrees_from_north=dfn, after=probe)
        # a second call on the very same argument, after fiddling with the first result.
        if rng.random() < 0.25 and not isinstance(argument, int):
            if isinstance(rec, list) and rec:
                rec = rec[0]
            if isinstance(rec, hvsrpy.SeismicRecording3C):
                rec.ns.amplitude[:] = 7.
                rec.meta["file name(s)"] = "changed"
            run(label + ("again",), reader, argument, degrees_from_north=dfn, after=probe)


# ---------------------------------------------------------------- binary files
def make_trace(rng, channel, npts, delta, dtype="float32"):
    data = rng_array(rng, npts).astype(dtype)
    header = {"network": "UT", "station": "STN11", "location": "", "channel": channel, "delta": delta,
              "starttime": obspy.UTCDateTime(2020, 1, 1) + rng.choice([0, 0, 0, 1.5])}
    return obspy.Trace(data=data, header=header)


def rng_array(rng, npts):
    return np.array([rng.uniform(-1000, 1000) for _ in range(npts)])


def write_quiet(stream, target, **kwargs):
    with warnings.catch_warnings():
        warnings.simplefilter("ignore")
        stream.write(target, **kwargs)


def channel_sets(rng):
    roll = rng.random()
    if roll < 0.7:
        prefix = rng.choice(["BH", "HH", "EH", "HN", ""])
        chans = [prefix + c for c in "ENZ"]
    elif roll < 0.8:
        chans = [rng.choice(["BHE", "BHN", "BHZ"]) for _ in range(3)]
    elif roll < 0.9:
        chans = [rng.choice(["BHE", "BHN", "BHZ", "BH1", "BH2", "E", "N", "Z", "bhe", "BHX"]) for _ in range(3)]
    else:
        chans = ["BHZ", "BHN", "BHE"]
    rng.shuffle(chans)
    return chans


def file_probe(names):
    def probe():
        out = []
        for name in names:
            if isinstance(name, io.BytesIO):
                out.append(("bytesio", name.tell(), name.closed, hashlib.sha256(name.getvalue()).hexdigest()))
            elif isinstance(name, (str, pathlib.Path)) and os.path.isfile(str(name)):
                with open(str(name), "rb") as f:
                    out.append(("file", hashlib.sha256(f.read()).hexdigest()))
            else:
                out.append(("other", mask(repr(name))))
        return out
    return probe


def as_name(rng, name, allow_buffer=True):
    roll = rng.random()
    if roll < 0.35:
        return name
    if roll < 0.65:
        return pathlib.Path(name)
    if roll < 0.9 and allow_buffer:
        with open(name, "rb") as f:
            buffer = io.BytesIO(f.read())
        buffer.seek(rng.choice([0] * 6 + [7, 632]))
        return buffer
    return name


def binary_cases(rng, count):
    for i in range(count):
        kind = rng.choice(["mseed1", "mseed3", "sac", "sac", "sac", "arrange"])
        npts = rng.randint(2, 60)
        delta = rng.choice([0.01, 0.005, 0.02, 1 / 128])
        chans = channel_sets(rng)
        ntraces = rng.choice([3] * 10 + [2, 4]) if kind != "arrange" else rng.choice([3, 3, 3, 2, 1, 0, 4])
        while len(chans) < ntraces:
            chans.append(rng.choice(["BHE", "BHZ"]))
        traces = [make_trace(rng, c, rng.choice([npts] * 19 + [npts + 1]), rng.choice([delta] * 29 + [delta * 2]),
                             rng.choice(["float32", "float32", "int32", "float64"]))
                  for c in chans[:ntraces]]
        dfn = rng.choice([None, None, 0, 33., -45, 725.5])
        entry = rng.choice(["direct", "direct", "read_single", "read"])
        label = ("binary", i, kind, entry)
        base = os.path.join(TMP, "bin_%05d" % i)

        if kind == "arrange":
            argument = rng.choice([list, tuple, obspy.Stream])(traces)
            if rng.random() < 0.1 and traces:
                argument = list(traces) + [object()]
            before = [t.data.copy() for t in traces]
            result = run(label, dw._arrange_traces, argument,
                         after=lambda: [bool(np.array_equal(a, t.data)) for a, t in zip(before, traces)])
            if isinstance(result, tuple):
                LINES.append(repr(("arrange-independent", i, [bool(np.shares_memory(ts.amplitude, t.data)) for ts in result for t in traces])))
            continue

        if kind == "mseed1":
            name = base + ".mseed"
            if not traces:
                continue
            write_quiet(obspy.Stream(traces), name, format="MSEED")
            argument = as_name(rng, name)
            names = [argument]
            reader = dw._read_mseed
        elif kind == "mseed3":
            names = []
            for j, trace in enumerate(traces):
                name = "%s_%d.mseed" % (base, j)
                write_quiet(obspy.Stream([trace]), name, format="MSEED")
                names.append(as_name(rng, name))
            if rng.random() < 0.08:
                names[-1] = base + "_missing.mseed"
            if rng.random() < 0.08 and len(traces) >= 2:
                name = base + "_two.mseed"
                write_quiet(obspy.Stream(traces[:2]), name, format="MSEED")
                names[0] = name
            argument = rng.choice([list, list, tuple])(names)
            reader = dw._read_mseed
        else:
            names = []
            for j, trace in enumerate(traces):
                trace.data = trace.data.astype("float32")
                name = "%s_%d%s" % (base, j, rng.choice([".sac"] * 18 + [".SAC", ".SAC", "", "", ".sac.gz", ".sac.gz", ".sac.gz", "[1].sac", ".zip.sac", ".tar.sac"]))
                order = rng.choice(["<", ">"])
                plain = base + "_plain.sac"
                write_quiet(obspy.Stream([trace]), plain, format="SAC", byteorder=order)
                if name.endswith(".gz"):
                    with open(plain, "rb") as f, open(name, "wb") as raw, gzip.GzipFile("", "wb", fileobj=raw, mtime=0) as g:
                        g.write(f.read())
                elif name.endswith(".zip.sac"):
                    with open(plain, "rb") as f, zipfile.ZipFile(name, "w") as z:
                        z.writestr(zipfile.ZipInfo("inner.sac", date_time=(2020, 1, 1, 0, 0, 0)), f.read())
                elif name.endswith(".tar.sac"):
                    with open(plain, "rb") as f, tarfile.open(name, "w") as t:
                        info = tarfile.TarInfo("inner.sac")
                        info.size = os.path.getsize(plain)
                        t.addfile(info, f)
                else:
                    shutil.copyfile(plain, name)
                os.remove(plain)
                damage = rng.random()
                if damage < 0.03:
                    with open(name, "r+b") as f:
                        f.truncate(rng.choice([0, 100, 632, 640]))
                elif damage < 0.05:
                    with open(name, "wb") as f:
                        f.write(b"not a sac file at all\n" * 40)
                names.append(as_name(rng, name))
            roll = rng.random()
            if roll < 0.06:
                names[-1] = base + "_missing.sac"
            elif roll < 0.1:
                names[-1] = os.path.join(TMP, "bin_%05d_*.sac" % i)
            argument = rng.choice([list, list, tuple])(names)
            reader = dw._read_sac

        kwargs_kind = rng.choice(["none"] * 5 + ["default"] * 3 + ["extra", "empty", "proxy", "lower", "lower"])
        fmt = "MSEED" if reader is dw._read_mseed else "SAC"
        read_kwargs = {"none": None, "default": {"format": fmt}, "extra": {"format": fmt, "headonly": False},
                       "empty": {}, "proxy": types.MappingProxyType({"format": fmt}),
                       "lower": {"format": fmt.lower()}}[kwargs_kind]
        snapshot = list(argument) if isinstance(argument, (list, tuple)) else None

        def probe(names=names, read_kwargs=read_kwargs, argument=argument, snapshot=snapshot):
            same = None if snapshot is None else (len(snapshot) == len(argument) and all(a is b for a, b in zip(argument, snapshot)))
            kw = None if read_kwargs is None else list(dict(read_kwargs).items())
            return file_probe(names)(), kw, same, sorted(n for n in os.listdir(TMP) if n.startswith("bin_%05d" % i))
        if entry == "direct":
            rec = run(label + (kwargs_kind,), reader, argument, obspy_read_kwargs=read_kwargs, degrees_from_north=dfn, after=probe)
        elif entry == "read_single":
            rec = run(label + (kwargs_kind,), hvsrpy.read_single, argument, obspy_read_kwargs=read_kwargs, degrees_from_north=dfn, after=probe)
        else:
            rec = run(label + (kwargs_kind,), hvsrpy.read, [argument, argument], obspy_read_kwargs=read_kwargs,
                      degrees_from_north=rng.choice([dfn, [dfn, 10.]]), after=probe)
        if rng.random() < 0.3:
            # same arguments (incl. the possibly updated keyword dictionary) once more.
            run(label + ("again",), reader, argument, obspy_read_kwargs=read_kwargs, degrees_from_north=dfn, after=probe)
        for name in names:
            if isinstance(name, (str, pathlib.Path)) and os.path.isfile(str(name)) and rng.random() < 0.5:
                os.remove(str(name))


def shipped_data_cases():
    """The example files of the test-suite, if they are around."""
    base = pathlib.Path(HERE).parent / "test" / "data" / "input"
    if not base.is_dir():
        LINES.append("no shipped data")
        return
    gcf = base / "gcf" / "sample.gcf"
    if gcf.is_file():
        with open(gcf, "rb") as f:
            buffer = io.BytesIO(f.read())
        for argument in (gcf, str(gcf), buffer, [gcf], (str(gcf), str(gcf)), io.StringIO("abc"), 3, None, b"abc"):
            for dfn in (None, 20):
                run(("gcf", type(argument).__name__, dfn), dw._read_gcf, argument, degrees_from_north=dfn)
        run(("gcf", "kwargs"), dw._read_gcf, gcf, obspy_read_kwargs={"format": "GCF", "headonly": False})
        run(("gcf", "read_single"), hvsrpy.read_single, gcf)
    sets = {
        "mseed1": base / "mseed_combined" / "ut.stn11.a2_c50.mseed",
        "mseed3": [base / "mseed_individual" / ("ut.stn11.a2_c50_bh%s.mseed" % c) for c in "ezn"],
        "saf": base / "saf" / "mt_20211122_133110.saf",
        "minishark": base / "minishark" / "0003_181115_0441.minishark",
        "sac_big": [base / "sac_big_endian" / ("ut.stn11.a2_c50_%s.sac" % c) for c in "enz"],
        "sac_little": [str(base / "sac_little_endian" / ("ut.stn11.a2_c50_%s.sac" % c)) for c in "zne"],
        "peer": [base / "peer" / ("rsn942_northr_alh%s.vt2" % c) for c in ("-up", "090", "360")],
    }
    for key, argument in sets.items():
        run(("shipped", key), hvsrpy.read_single, argument)
        for reader_name, reader in dw.READ_FUNCTION_DICT.items():
            run(("shipped", key, reader_name), reader, argument, degrees_from_north=5)
    kwargs = {"format": "SAC"}
    run(("shipped", "sac kwargs"), dw._read_sac, sets["sac_big"], obspy_read_kwargs=kwargs, after=lambda: list(kwargs.items()))
    run(("shipped", "sac mixed"), dw._read_sac, [sets["sac_big"][0], sets["sac_little"][1], sets["sac_big"][2]],
        obspy_read_kwargs=kwargs, after=lambda: list(kwargs.items()))
    with warnings.catch_warnings():
        warnings.simplefilter("ignore")
        many = hvsrpy.read([sets["mseed1"], sets["sac_little"], [sets["saf"]], sets["peer"]], degrees_from_north=[None, 1., None, 2])
    LINES.append(repr(describe(many)))
    run(("shipped", "bare name"), hvsrpy.read, sets["saf"])
    run(("shipped", "bare str"), hvsrpy.read, str(sets["saf"]))


def odd_argument_cases():
    for reader_name, reader in dw.READ_FUNCTION_DICT.items():
        for argument in (None, 5.5, [], (), ["a"], ["a", "b", "c"], ("a", "b", "c", "d"), "", "no_such_file",
                         pathlib.Path("no_such_dir") / "x", io.StringIO(""), io.BytesIO(b""), io.BytesIO(b"xyz" * 300),
                         [io.StringIO("a"), io.StringIO("b"), io.StringIO("c")], TMP, {"a": 1}, b"no_such_file",
                         [io.BytesIO(b""), io.BytesIO(b""), io.BytesIO(b"")]):
            run(("odd", reader_name, mask(repr(argument))[:40]), reader, argument)
            run(("odd kwargs", reader_name, mask(repr(argument))[:40]), reader, argument, obspy_read_kwargs={"format": "SAC"}, degrees_from_north="x")


def main():
    dump = sys.argv[sys.argv.index("--dump") + 1] if "--dump" in sys.argv else None
    cwd = os.getcwd()
    try:
        os.chdir(TMP)
        text_cases(random.Random(20260101), 520)
        binary_cases(random.Random(20260102), 260)
        shipped_data_cases()
        odd_argument_cases()
        LINES.append(repr(("leftovers", sorted(n for n in os.listdir(TMP) if not n.startswith(("text_", "bin_"))))))
    finally:
        os.chdir(cwd)
        shutil.rmtree(TMP, ignore_errors=True)
    if dump:
        with open(dump, "w", encoding="utf-8") as f:
            f.write("\n".join(LINES) + "\n")
    print("DIGEST", hashlib.sha256("\n".join(LINES).encode("utf-8")).hexdigest())


if __name__ == "__main__":
    main()
