"""Behavioural fingerprint of hvsrpy's TimeSeries / SeismicRecording3C.

Prints one line ``DIGEST <sha256>`` of everything observable of several
hundred seeded call sequences (returned values, bits of the amplitudes,
memory sharing, meta, written files, write-call pattern, exceptions and
their messages, warnings, log records).

Optional: ``--dump FILE`` also writes every observation line to FILE.
"""

import copy
import decimal
import fractions
import hashlib
import io
import json
import logging
import os
import pickle
import re
import shutil
import sys
import tempfile
import warnings
from collections import OrderedDict

import numpy as np

import hvsrpy
from hvsrpy import TimeSeries, SeismicRecording3C
import hvsrpy.seismic_recording_3c as sr3c_module

HERE = os.path.dirname(os.path.abspath(__file__))
TMP = tempfile.mkdtemp(prefix="equiv_tmp_", dir=HERE)

LINES = []
HASH = hashlib.sha256()


def emit(*parts):
    line = " | ".join(str(p) for p in parts)
    line = line.replace(TMP, "<TMP>")
    LINES.append(line)
    HASH.update(line.encode("utf-8", "backslashreplace"))
    HASH.update(b"\n")


# --------------------------------------------------------------------------
# canonical description of values
# --------------------------------------------------------------------------

_ID = re.compile(r" at \d+")
_HEX = re.compile(r"0x[0-9a-fA-F]+")


def norm_text(text):
    return _ID.sub(" at ID", _HEX.sub("0xX", text)).replace(TMP, "<TMP>")


def describe(x, depth=0):
    if depth > 6:
        return "<deep>"
    if isinstance(x, np.ndarray):
        if x.dtype.hasobject:  # bytes would be addresses
            digest = hashlib.sha256(repr([describe(v, depth+1) for v in x.ravel().tolist()]).encode()).hexdigest()[:24]
        else:
            digest = hashlib.sha256(np.ascontiguousarray(x).tobytes()).hexdigest()[:24]
        return (f"nd({x.dtype.str},{x.shape},{digest},w={int(x.flags.writeable)},"
                f"own={int(x.flags.owndata)},c={int(x.flags.c_contiguous)},"
                f"base={type(x.base).__name__})")
    if isinstance(x, (bool, np.bool_)):
        return f"{type(x).__name__}:{bool(x)}"
    if isinstance(x, (float, np.floating)):
        return f"{type(x).__name__}:{float(x).hex()}"
    if isinstance(x, (int, np.integer)):
        return f"{type(x).__name__}:{int(x)}"
    if isinstance(x, str):
        return "str:" + repr(norm_text(x))
    if x is None:
        return "None"
    if isinstance(x, dict):
        inner = ",".join(f"{describe(k, depth+1)}=>{describe(v, depth+1)}" for k, v in x.items())
        return f"{type(x).__name__}{{{inner}}}"
    if isinstance(x, (list, tuple)):
        if len(x) > 40 and all(isinstance(v, (float, int)) for v in x):
            digest = hashlib.sha256(repr([describe(v) for v in x]).encode()).hexdigest()[:24]
            return f"{type(x).__name__}#{len(x)}:{digest}"
        inner = ",".join(describe(v, depth+1) for v in x)
        return f"{type(x).__name__}[{inner}]"
    if isinstance(x, TimeSeries):
        return f"TS({describe(x.amplitude)},dt={describe(x.dt_in_seconds)},attrs={sorted(vars(x))})"
    if isinstance(x, SeismicRecording3C):
        return ("REC(" + ",".join(describe(getattr(x, c), depth+1) for c in ("ns", "ew", "vt"))
                + f",deg={describe(x.degrees_from_north)},meta={describe(x.meta, depth+1)},"
                + f"attrs={sorted(vars(x))})")
    if isinstance(x, BaseException):
        ctx = type(x.__context__).__name__ if x.__context__ is not None else "-"
        return f"EXC:{type(x).__module__}.{type(x).__name__}:{norm_text(str(x))}:ctx={ctx}"
    return f"{type(x).__name__}:{norm_text(repr(x))}"


class LogCapture(logging.Handler):
    def __init__(self):
        super().__init__(level=logging.DEBUG)
        self.records = []

    def emit(self, record):
        self.records.append(f"{record.name}:{record.levelname}:{norm_text(record.getMessage())}")


LOG = LogCapture()
_root = logging.getLogger("hvsrpy")
_root.addHandler(LOG)
_root.setLevel(logging.DEBUG)
_root.propagate = False


def attempt(label, func, *args, **kwargs):
    """Call, then emit result or exception, warnings and log records."""
    LOG.records.clear()
    with warnings.catch_warnings(record=True) as caught:
        warnings.simplefilter("always")
        try:
            result = func(*args, **kwargs)
            outcome = describe(result)
        except Exception as e:  # noqa
            result = e
            outcome = describe(e)
    warns = [f"{w.category.__name__}:{norm_text(str(w.message))}" for w in caught]
    logs = hashlib.sha256("\n".join(LOG.records).encode()).hexdigest()[:16]
    emit(label, outcome, f"warn={warns}", f"nlog={len(LOG.records)}", f"log={logs}")
    return result


def same_values(a, b, equal_nan=True):
    try:
        return bool(np.array_equal(a, b, equal_nan=equal_nan))
    except TypeError:
        return bool(np.array_equal(a, b))


def is_exc(x):
    return isinstance(x, BaseException)


# --------------------------------------------------------------------------
# generators of inputs
# --------------------------------------------------------------------------

RNG = np.random.default_rng(20241005)

DTS = [0.01, 0.005, 0.1, 1/3, 0.004, 1e-3, 2.0, 0.02, 1/128, 1/200, 0.008,
       0.3, 0.7, 1/7, 1e-9, 1e6, 0.05, 0.025, 1/250, 0.2]


def pick(seq):
    return seq[int(RNG.integers(len(seq)))]


def random_amplitude(n, special=False):
    kind = int(RNG.integers(4))
    if kind == 0:
        a = RNG.standard_normal(n)
    elif kind == 1:
        a = RNG.standard_normal(n).cumsum() + 3.0
    elif kind == 2:
        t = np.arange(n)
        a = np.sin(0.05*t) + 0.01*t + 0.1*RNG.standard_normal(n)
    else:
        a = RNG.integers(-1000, 1000, n).astype(float)
    if special and n > 0:
        for value in (np.nan, np.inf, -np.inf, -0.0, 5e-324, 1.7e308):
            if RNG.random() < 0.3:
                a[int(RNG.integers(n))] = value
    return a


def as_scalar_variant(value, which=None):
    """The same number expressed with another (legal or odd) type."""
    options = ["float", "np64", "np32", "np16", "int", "npint", "frac", "dec", "arr0", "arr1", "bool",
               "longdouble", "str"]
    which = pick(options) if which is None else which
    if which == "float":
        return float(value)
    if which == "np64":
        return np.float64(value)
    if which == "np32":
        return np.float32(value)
    if which == "np16":
        return np.float16(value)
    if which == "int":
        return int(value)
    if which == "npint":
        return pick([np.int64, np.int32, np.uint8, np.uint64, np.int16])(int(abs(value)) % 100)
    if which == "frac":
        return fractions.Fraction(value).limit_denominator(1000)
    if which == "dec":
        return decimal.Decimal(repr(float(value)))
    if which == "arr0":
        return np.array(float(value))
    if which == "arr1":
        return np.array([float(value)])
    if which == "bool":
        return bool(value)
    if which == "longdouble":
        return np.longdouble(value)
    return str(value)


def interesting_times(ts):
    """Times at, between and just off the samples of ``ts``."""
    n = ts.n_samples
    dt = ts.dt_in_seconds
    out = []
    if n == 0:
        return [0.0, 1.0]
    last = (np.arange(n)*dt)[-1]
    for _ in range(3):
        k = int(RNG.integers(n))
        out.append(float(k*dt))
        out.append(float((k+0.5)*dt))
        out.append(float(k*dt + 0.5*dt))
        out.append(float(np.nextafter((k+0.5)*dt, np.inf)))
        out.append(float(np.nextafter((k+0.5)*dt, -np.inf)))
        out.append(float(np.nextafter(k*dt, np.inf)))
        out.append(float(np.nextafter(k*dt, -np.inf)))
        out.append(float(RNG.uniform(0, max(float(last), dt))))
        out.append(k/(1/dt) if dt != 0 else 0.0)
    out.extend([0.0, -0.0, float(last), float(np.nextafter(last, np.inf)),
                float(np.nextafter(last, -np.inf)), float(last) + dt*1e-9,
                float(last) - 0.5*dt, float(last) - 0.49999*dt, (n-1)*dt, n*dt,
                0.5*dt, 0.25*dt, 1e-300, 5e-324])
    return out


ODD_TIMES = [np.nan, np.inf, -np.inf, None, "1.0", -1.0, -1e-12, 1e300, [1.0], (0.5,),
             np.array([0.1, 0.2]), 1+0j, fractions.Fraction(1, 3), decimal.Decimal("0.5"),
             np.float32("nan"), np.longdouble(0.3), True, False, np.True_, np.float16(0.5)]


# --------------------------------------------------------------------------
# A. constructor of TimeSeries
# --------------------------------------------------------------------------

def block_constructor():
    base = RNG.standard_normal(64)
    inputs = [
        ("list", [1, 2, 3.5]), ("tuple", (1.0, -2.0)), ("empty", []), ("ndarray", base),
        ("int_array", np.arange(10)), ("f32", base.astype(np.float32)),
        ("bool", np.array([True, False, True])), ("strided", base[::3]), ("reversed", base[::-1]),
        ("2d", np.ones((3, 4))), ("0d", np.array(3.0)), ("scalar", 3.0), ("ragged", [[1, 2], [3]]),
        ("str", "abc"), ("strs", ["1.5", "2"]), ("bad_strs", ["a", "b"]), ("none", None),
        ("none_list", [None, 1.0]), ("complex", np.array([1+2j, 3])), ("dict", {"a": 1}),
        ("range", range(5)), ("gen", (i for i in range(3))), ("set", {1.0, 2.0}),
        ("nan", [np.nan, np.inf, -np.inf, -0.0]), ("readonly", np.broadcast_to(np.float64(2.0), (7,))),
        ("object", np.array([1, 2.5, 3], dtype=object)), ("3d", np.zeros((2, 2, 2))),
        ("timeseries_amplitude", TimeSeries([1, 2, 3], 1).amplitude),
        ("big_int", [2**70, 1]), ("fortran2d", np.asfortranarray(np.ones((2, 3)))),
        ("masked", np.ma.masked_array([1.0, 2.0, 3.0], mask=[0, 1, 0])),
    ]
    dts = [0.01, 1, "0.25", np.float32(0.1), np.float64(0.3), None, "abc", [0.1], np.array(0.5),
           np.array([0.5]), 0, -1.0, np.nan, np.inf, True, fractions.Fraction(1, 8), 2**2000, 1+0j]
    for name, value in inputs:
        for dt in (0.01, pick(dts), pick(dts)):
            ts = attempt(f"A.ctor {name} dt={describe(dt)}", TimeSeries, value, dt)
            if not is_exc(ts) and isinstance(value, np.ndarray):
                emit("A.shares", np.shares_memory(ts.amplitude, value), ts.amplitude is value)
                attempt("A.props", lambda: (ts.n_samples, ts.fs, ts.fnyq, ts.time()))
                attempt("A.repr", lambda: (str(ts), repr(ts)))
    for dt in dts:
        ts = attempt(f"A.dt {describe(dt)}", TimeSeries, [1.0, 2.0, 3.0, 4.0], dt)
        if not is_exc(ts):
            attempt("A.dt.props", lambda: (ts.n_samples, ts.fs, ts.fnyq, ts.time()))
    # keyword use, copy constructor, from_trace
    ts = TimeSeries(amplitude=base, dt_in_seconds=0.5)
    cp = TimeSeries.from_timeseries(ts)
    emit("A.copy", describe(cp), np.shares_memory(cp.amplitude, ts.amplitude), cp == ts, cp != ts,
         cp.is_similar(ts))
    cp.amplitude[0] = 99.0
    emit("A.copy.indep", describe(ts), cp == ts)
    attempt("A.copy.bad", TimeSeries.from_timeseries, [1, 2, 3])
    import obspy
    trace = obspy.Trace(data=np.arange(20, dtype=np.int32), header={"delta": 0.02})
    ft = attempt("A.from_trace", TimeSeries.from_trace, trace)
    emit("A.from_trace.shares", np.shares_memory(ft.amplitude, trace.data))

    class Sub(TimeSeries):
        pass
    sub = Sub([1, 2, 3], 0.1)
    emit("A.sub", type(Sub.from_timeseries(ts)).__name__, type(sub.split(0.1)[0]).__name__,
         type(sub.from_timeseries(sub)).__name__)
    # hash / pickling / deepcopy
    attempt("A.hash", hash, ts)
    emit("A.pickle", describe(pickle.loads(pickle.dumps(ts))), describe(copy.deepcopy(ts)),
         describe(copy.copy(ts)))
    # is_similar / eq
    others = [TimeSeries(base, 0.5), TimeSeries(base, 0.5 + 1e-9), TimeSeries(base, 0.5 + 1e-7),
              TimeSeries(base[:-1], 0.5), TimeSeries(base + 1e-9, 0.5), TimeSeries(base + 1e-3, 0.5),
              "ts", None, base, Sub(base, 0.5)]
    for i, other in enumerate(others):
        attempt(f"A.sim{i}", lambda: (ts.is_similar(other), ts == other, ts != other))
    nan_ts = TimeSeries([np.nan, 1.0], 0.5)
    attempt("A.nan_eq", lambda: (nan_ts == nan_ts, nan_ts.is_similar(nan_ts)))
    weird = TimeSeries([1.0, 2.0], 0.5)
    weird.dt_in_seconds = np.nan
    attempt("A.nan_dt", lambda: (weird.is_similar(weird), weird == weird))
    weird.dt_in_seconds = np.float64(0.5)
    attempt("A.np_dt", lambda: (weird.is_similar(TimeSeries([1.0, 2.0], 0.5)),
                                weird.is_similar(TimeSeries([1.0, 2.0], 0.6))))


# --------------------------------------------------------------------------
# B. trim
# --------------------------------------------------------------------------

def trim_and_observe(label, ts, start, end):
    before = ts.amplitude
    snapshot = before.copy() if isinstance(before, np.ndarray) else copy.deepcopy(before)
    result = attempt(label, ts.trim, start, end)
    after = ts.amplitude
    offset = None
    if isinstance(after, np.ndarray) and isinstance(before, np.ndarray) and after.size and before.ndim == 1:
        offset = (after.__array_interface__["data"][0] - before.__array_interface__["data"][0])//before.strides[0] \
            if before.strides[0] else 0
    same = same_values(before, snapshot, equal_nan=True) if isinstance(before, np.ndarray) else before == snapshot
    emit(label + ".state", describe(after), f"is_before={after is before}",
         f"shares={np.shares_memory(after, before) if isinstance(after, np.ndarray) else '-'}",
         f"offset={offset}", f"src_unchanged={same}", f"n={len(after)}")
    return result


def block_trim():
    # random records, interesting times, several types
    for case in range(220):
        n = int(pick([1, 2, 3, 5, 10, 11, 64, 100, 101, 257, 400, 1000, 1001]))
        dt = pick(DTS)
        ts = TimeSeries(random_amplitude(n), dt)
        times = interesting_times(ts)
        for rep in range(3):
            a, b = pick(times), pick(times)
            if RNG.random() < 0.6 and a > b:
                a, b = b, a
            ka = pick(["float", "float", "float", "np64", "np32", "int", "npint", "frac", "dec", "arr0",
                       "arr1", "bool", "longdouble", "np16"])
            kb = pick(["float", "float", "float", "np64", "np32", "int", "npint", "frac", "dec", "arr0",
                       "arr1", "bool", "longdouble", "np16"])
            try:
                a2, b2 = as_scalar_variant(a, ka), as_scalar_variant(b, kb)
            except Exception:
                a2, b2 = a, b
            trim_and_observe(f"B.trim{case}.{rep} n={n} dt={dt!r} {ka}/{kb} {describe(a2)} {describe(b2)}",
                             ts, a2, b2)
            if ts.n_samples == 0:
                break
            times = interesting_times(ts)
    # exhaustive ties / boundaries on small records
    for dt in (0.5, 0.1, 1/3, 0.01, 0.7):
        for n in (1, 2, 3, 7):
            for i in range(0, 2*n + 1):
                for j in range(0, 2*n + 2):
                    ts = TimeSeries(np.arange(n, dtype=float), dt)
                    trim_and_observe(f"B.grid dt={dt!r} n={n} {i} {j}", ts, i*dt/2, j*dt/2)
    # the record end and around
    for case in range(60):
        n = int(RNG.integers(2, 3000))
        dt = pick(DTS)
        ts = TimeSeries(np.arange(n, dtype=float), dt)
        end = ts.time()[-1]
        for delta in (0, 1, -1, 2, -2):
            e = end
            for _ in range(abs(delta)):
                e = np.nextafter(e, np.inf if delta > 0 else -np.inf)
            fresh = TimeSeries(np.arange(n, dtype=float), dt)
            trim_and_observe(f"B.end{case} n={n} dt={dt!r} d={delta}", fresh, float(RNG.uniform(0, 0.3))*float(end), e)
        fresh = TimeSeries(np.arange(n, dtype=float), dt)
        trim_and_observe(f"B.end{case}.prod", fresh, 0, (n-1)*dt)
        fresh = TimeSeries(np.arange(n, dtype=float), dt)
        trim_and_observe(f"B.end{case}.div", fresh, 0, (n-1)/(1/dt))
    # large records
    for n, dt in ((200001, 0.005), (1000000, 1/3), (500000, 1e-9), (300000, 0.01), (2**20+1, 0.1)):
        ts = TimeSeries(np.arange(n, dtype=float), dt)
        tv = ts.time()
        for k in (0, 1, n//3, n//2, n-2, n-1):
            for frac in (0.0, 0.5, 0.4999999, 0.5000001):
                s = float(tv[k]) + frac*dt
                fresh = TimeSeries.from_timeseries(ts)
                fresh.amplitude = ts.amplitude  # avoid copies
                trim_and_observe(f"B.large n={n} dt={dt!r} k={k} f={frac}", fresh, s/2, s)
    # odd arguments
    for i, a in enumerate(ODD_TIMES):
        for j, b in enumerate(ODD_TIMES + [0.5, 0.0]):
            ts = TimeSeries(np.arange(11, dtype=float), 0.1)
            trim_and_observe(f"B.odd {i} {j}", ts, a, b)
            ts = TimeSeries(np.arange(11, dtype=float), 0.1)
            trim_and_observe(f"B.odd2 {i} {j}", ts, 0.2 if j % 2 else 0, a)
    # degenerate records and time steps
    for n in (0, 1, 2, 5):
        for dt in (0.0, -0.1, np.nan, np.inf, -np.inf, 1e-320, 1e308, np.float64(0.1), np.float32(0.1), 1,
                   np.int64(2), fractions.Fraction(1, 4), "0.1", None):
            for (a, b) in ((0, 0.2), (np.nan, np.nan), (0, np.nan), (np.nan, -0.3), (0.1, 0.1), (0, 0), (0.0, 1e400),
                           (0, 4), (1, 3.5)):
                ts = TimeSeries(np.arange(n, dtype=float), 0.1)
                ts.dt_in_seconds = dt
                trim_and_observe(f"B.degenerate n={n} dt={describe(dt)} {a} {b}", ts, a, b)
    # keyword arguments, views, odd amplitude containers
    ts = TimeSeries(np.arange(50, dtype=float), 0.1)
    attempt("B.kw", ts.trim, end_time=2.0, start_time=1.0)
    emit("B.kw.state", describe(ts))
    attempt("B.kw.bad", ts.trim, 1.0)
    source = np.arange(100, dtype=float)
    for container in (source[::2], source[::-1], source.astype(int), list(source), tuple(source),
                      source.reshape(10, 10), np.broadcast_to(1.0, (30,)), source.astype(np.float32)):
        ts = TimeSeries([0.0], 0.1)
        ts.amplitude = container
        trim_and_observe(f"B.container {type(container).__name__}", ts, 0.31, 0.75)
        attempt("B.container.after", lambda: describe(ts.amplitude))
    # trim, then in-place window acts on the memory of the view.
    source = np.ones(100)
    ts = TimeSeries([0.0], 0.1)
    ts.amplitude = source
    ts.trim(1.0, 3.0)
    ts.window(width=0.5)
    emit("B.view.window", describe(source), describe(ts.amplitude))


# --------------------------------------------------------------------------
# C. split
# --------------------------------------------------------------------------

def observe_windows(label, ts, windows):
    if is_exc(windows):
        return
    src = ts.amplitude
    emit(label + ".n", len(windows), type(windows).__name__)
    for i, w in enumerate(windows):
        shares = np.shares_memory(w.amplitude, src) if isinstance(src, np.ndarray) else "-"
        emit(label + f".w{i}", describe(w), f"shares={shares}", f"type={type(w).__name__}")
    distinct = len({id(w.amplitude) for w in windows}) == len(windows)
    pairwise = any(np.shares_memory(windows[i].amplitude, windows[i+1].amplitude) for i in range(len(windows)-1))
    emit(label + ".indep", distinct, pairwise)
    if windows and isinstance(src, np.ndarray) and src.flags.writeable:
        snapshot = src.copy()
        for w in windows:
            w.amplitude[...] = -7.0
        emit(label + ".src_unchanged", same_values(snapshot, src, equal_nan=True))


def block_split():
    lengths_odd = [0, 0.0, -1.0, np.nan, np.inf, -np.inf, None, "1.0", [1.0], np.array(1.0), np.array([1.0]),
                   1+0j, fractions.Fraction(1, 2), decimal.Decimal("0.5"), True, 1e-12, 1e300, np.float32(0.5),
                   np.int64(1), np.float16(0.5), np.longdouble(0.5)]
    for case in range(200):
        n = int(pick([0, 1, 2, 3, 10, 11, 50, 99, 100, 101, 128, 300, 1000]))
        dt = pick(DTS)
        ts = TimeSeries(random_amplitude(n, special=RNG.random() < 0.3), dt)
        choice = RNG.random()
        if choice < 0.4:
            wl = int(RNG.integers(1, max(n, 2)))*dt
        elif choice < 0.6:
            wl = float(RNG.uniform(0.2, max(n, 2)))*dt
        elif choice < 0.7:
            wl = (n-1)*dt
        elif choice < 0.8:
            wl = n*dt
        elif choice < 0.9:
            wl = as_scalar_variant(float(int(RNG.integers(1, 20)))*dt,
                                   pick(["np64", "np32", "int", "frac", "arr0", "arr1", "longdouble", "npint"]))
        else:
            wl = pick(lengths_odd)
        before = ts.amplitude.copy()
        windows = attempt(f"C.split{case} n={n} dt={dt!r} wl={describe(wl)}", ts.split, wl)
        emit(f"C.split{case}.self", describe(ts), same_values(before, ts.amplitude, equal_nan=True))
        observe_windows(f"C.split{case}", ts, windows)
    # exhaustive small
    for n in range(0, 14):
        for spw in range(0, 16):
            ts = TimeSeries(np.arange(n, dtype=float), 0.5)
            windows = attempt(f"C.grid n={n} wl={spw*0.5}", ts.split, spw*0.5)
            observe_windows(f"C.grid n={n} wl={spw*0.5}", ts, windows)
    for wl in lengths_odd:
        ts = TimeSeries(np.arange(20, dtype=float), 0.5)
        attempt(f"C.odd {describe(wl)}", ts.split, wl)
    # amplitude in other containers
    source = RNG.standard_normal(120)
    readonly = source.copy()
    readonly.setflags(write=False)
    for name, container in (("strided", source[::2]), ("reversed", source[::-1]), ("int", (source*100).astype(int)),
                            ("f32", source.astype(np.float32)), ("list", list(source)), ("tuple", tuple(source)),
                            ("2d", source.reshape(12, 10)), ("readonly", readonly), ("broadcast", np.broadcast_to(2.0, (40,))),
                            ("offset_view", source[7:93]), ("bool", source > 0), ("complex", source.astype(complex)),
                            ("object", source.astype(object)), ("masked", np.ma.masked_array(source, source > 1)),
                            ("empty", source[:0]), ("fortran", np.asfortranarray(source.reshape(12, 10))[:, 0])):
        for wl in (1.0, 0.9, 3.0, 6.0):
            ts = TimeSeries([0.0], 0.1)
            ts.amplitude = container
            windows = attempt(f"C.container {name} wl={wl}", ts.split, wl)
            observe_windows(f"C.container {name} wl={wl}", ts, windows)
            emit(f"C.container {name}.self", ts.amplitude is container)
    for dt in (0.0, -0.1, np.nan, np.inf, np.float32(0.1), np.float64(0.1), 1, "0.1", None):
        ts = TimeSeries(np.arange(30, dtype=float), 0.1)
        ts.dt_in_seconds = dt
        windows = attempt(f"C.dt {describe(dt)}", ts.split, 0.5)
        observe_windows(f"C.dt {describe(dt)}", ts, windows)
    ts = TimeSeries(np.arange(30, dtype=float), 0.1)
    attempt("C.kw", ts.split, window_length_in_seconds=1.0)
    attempt("C.noarg", ts.split)


# --------------------------------------------------------------------------
# D-F. detrend, window, filter
# --------------------------------------------------------------------------

def block_detrend_window_filter():
    detrend_types = ["linear", "constant", "l", "c", "bogus", None, 5, "Linear", ["linear"], ("constant",),
                     np.str_("linear"), b"linear"]
    for case in range(120):
        n = int(pick([0, 1, 2, 3, 10, 100, 257, 1000]))
        ts = TimeSeries(random_amplitude(n, special=RNG.random() < 0.25), pick(DTS))
        kind = pick(detrend_types) if RNG.random() < 0.4 else pick(["linear", "constant"])
        before = ts.amplitude
        snapshot = before.copy()
        attempt(f"D.detrend{case} n={n} type={describe(kind)}", ts.detrend, kind)
        emit(f"D.detrend{case}.state", describe(ts), ts.amplitude is before,
             np.shares_memory(ts.amplitude, before), same_values(snapshot, before, equal_nan=True))
    ts = TimeSeries(np.arange(10.)**2, 0.1)
    attempt("D.default", ts.detrend)
    emit("D.default.state", describe(ts))
    attempt("D.kw", ts.detrend, type="constant")
    emit("D.kw.state", describe(ts))
    source = RNG.standard_normal(60)
    for name, container in (("int", (source*100).astype(int)), ("f32", source.astype(np.float32)), ("list", list(source)),
                            ("2d", source.reshape(6, 10)), ("strided", source[::3]), ("complex", source.astype(complex)),
                            ("bool", source > 0), ("object", source.astype(object))):
        for kind in ("linear", "constant"):
            ts = TimeSeries([0.0], 0.1)
            ts.amplitude = container
            attempt(f"D.container {name} {kind}", ts.detrend, kind)
            attempt(f"D.container {name} {kind}.state", lambda: describe(ts.amplitude))

    widths = [0, 0.0, 0.1, 0.5, 1, 1.0, 1.5, -0.2, None, "a", np.float32(0.3), np.float64(0.25), np.nan, np.inf,
              [0.1], np.array(0.2), np.array([0.2]), fractions.Fraction(1, 4), True, 1e-9, 0.999999]
    window_types = ["tukey", "hann", None, "Tukey", np.str_("tukey"), b"tukey", ["tukey"], ("tukey",), 3]
    for case in range(150):
        n = int(pick([0, 1, 2, 3, 4, 10, 11, 100, 257, 1000]))
        ts = TimeSeries(random_amplitude(n, special=RNG.random() < 0.25), pick(DTS))
        width = pick(widths) if RNG.random() < 0.5 else float(RNG.uniform(0, 1))
        wtype = pick(window_types) if RNG.random() < 0.25 else "tukey"
        before = ts.amplitude
        attempt(f"E.window{case} n={n} type={describe(wtype)} width={describe(width)}", ts.window, wtype, width)
        emit(f"E.window{case}.state", describe(ts), ts.amplitude is before)
    ts = TimeSeries(np.ones(40), 0.1)
    attempt("E.default", ts.window)
    emit("E.default.state", describe(ts))
    attempt("E.kw", ts.window, width=0.3, type="tukey")
    emit("E.kw.state", describe(ts))
    readonly = np.ones(30)
    readonly.setflags(write=False)
    for name, container in (("int", np.arange(30)), ("f32", np.ones(30, dtype=np.float32)), ("list", [1.0]*30),
                            ("tuple", (1.0,)*30), ("2d", np.ones((30, 2))), ("2d_b", np.ones((2, 30))),
                            ("readonly", readonly), ("broadcast", np.broadcast_to(2.0, (30,))), ("strided", np.ones(60)[::2]),
                            ("complex", np.ones(30, dtype=complex)), ("object", np.ones(30, dtype=object)),
                            ("int_list", [1]*30)):
        ts = TimeSeries([0.0], 0.1)
        ts.amplitude = container
        attempt(f"E.container {name}", ts.window, "tukey", 0.4)
        attempt(f"E.container {name}.state", lambda: (describe(ts.amplitude), ts.amplitude is container,
                                                      describe(container)))

    corner_sets = [(None, None), [None, None], (None, 5.0), (2.0, None), (1.0, 10.0), [1.0, 10.0], (10.0, 1.0),
                   (0, None), (None, 0), (-1.0, None), (None, 1e9), (3.0, 3.0), (np.float32(1.5), None),
                   (None, np.float64(12.5)), (1, 20), np.array([1.0, 5.0]), np.array([2.0, np.nan]), (np.nan, None),
                   (None, np.inf), (1.0,), (1.0, 2.0, 3.0), None, 5.0, "ab", "abc", {"a": 1, "b": 2},
                   (i for i in (0.5, 4.0)), ([1.0], None), ((1.0, 2.0), None), ("1", None), (None, "2"),
                   (fractions.Fraction(1, 2), None), (True, None), (0.5, False), (np.array(1.0), np.array(4.0))]
    orders = [5, 1, 2, 3, 4, 6, 8, 0, -1, 2.5, "3", None, np.int64(4), np.float64(3.0), True, [2], 30]
    for case in range(220):
        n = int(pick([0, 1, 5, 20, 34, 40, 100, 500, 2000]))
        dt = pick([0.01, 0.005, 0.1, 0.004, 1/128, 0.02, 0.008, 0.05])
        ts = TimeSeries(random_amplitude(n, special=RNG.random() < 0.15), dt)
        r = RNG.random()
        if r < 0.5:
            fn = 0.5/dt
            lo, hi = sorted(RNG.uniform(0.001, 0.999, 2)*fn)
            fcs = pick([(lo, hi), (None, hi), (lo, None), [lo, hi], (float(lo), None), np.array([lo, hi])])
        else:
            fcs = pick(corner_sets)
        if hasattr(fcs, "__next__"):
            fcs = (i for i in (0.5, 4.0))
        order = pick(orders) if RNG.random() < 0.5 else 5
        before = ts.amplitude
        snapshot = before.copy()
        use_default_order = RNG.random() < 0.3
        if use_default_order:
            attempt(f"F.filter{case} n={n} dt={dt!r} fcs={describe(fcs)} default", ts.butterworth_filter, fcs)
        else:
            attempt(f"F.filter{case} n={n} dt={dt!r} fcs={describe(fcs)} order={describe(order)}",
                    ts.butterworth_filter, fcs, order)
        emit(f"F.filter{case}.state", describe(ts), ts.amplitude is before,
             np.shares_memory(ts.amplitude, before), same_values(snapshot, before, equal_nan=True))
    ts = TimeSeries(RNG.standard_normal(300), 0.01)
    attempt("F.kw", ts.butterworth_filter, order=3, fcs_in_hz=(None, 20))
    emit("F.kw.state", describe(ts))
    for dt in (0.0, -0.01, np.nan, np.inf, np.float32(0.01), np.float64(0.0), "0.01", None):
        for fcs in ((None, None), (1.0, None), (1.0, 5.0)):
            ts = TimeSeries(RNG.standard_normal(200), 0.01)
            ts.dt_in_seconds = dt
            attempt(f"F.dt {describe(dt)} {fcs}", ts.butterworth_filter, fcs)
            emit(f"F.dt {describe(dt)} {fcs}.state", describe(ts))
    source = RNG.standard_normal(200)
    for name, container in (("int", (source*100).astype(int)), ("f32", source.astype(np.float32)), ("list", list(source)),
                            ("2d", source.reshape(2, 100)), ("strided", source[::2]), ("complex", source.astype(complex)),
                            ("object", source.astype(object)), ("bool", source > 0)):
        ts = TimeSeries([0.0], 0.01)
        ts.amplitude = container
        attempt(f"F.container {name}", ts.butterworth_filter, (1.0, 10.0), 3)
        attempt(f"F.container {name}.state", lambda: describe(ts.amplitude))
    # the warning is issued again and again (not once per location only)
    with warnings.catch_warnings(record=True) as caught:
        warnings.simplefilter("default")
        ts = TimeSeries(source, 0.01)
        for _ in range(3):
            ts.butterworth_filter((None, None))
    emit("F.warn.default", len(caught), [w.category.__name__ for w in caught],
         [os.path.basename(w.filename) for w in caught])


# --------------------------------------------------------------------------
# G. SeismicRecording3C
# --------------------------------------------------------------------------

def make_record(n=None, dt=None, degrees=None, meta="default", special=False):
    n = int(pick([2, 3, 10, 50, 101, 200, 500, 1000])) if n is None else n
    dt = pick([0.01, 0.005, 0.1, 0.004, 1/128, 0.02, 1/3]) if dt is None else dt
    comps = [TimeSeries(random_amplitude(n, special=special), dt) for _ in range(3)]
    kwargs = {}
    if degrees is not None:
        kwargs["degrees_from_north"] = degrees
    if meta != "default":
        kwargs["meta"] = meta
    return SeismicRecording3C(*comps, **kwargs), comps


def block_record_constructor():
    degrees = [0, 0., 15, 359.999, 360, 360.0, 361.5, 720, -10, -370.25, 1e6, -1e-12, np.float32(45.5),
               np.float64(400.0), np.int64(-90), np.float16(30.0), True, np.nan, np.inf, -np.inf, "a", None, [10],
               np.array(370.0), np.array([370.0]), fractions.Fraction(725, 2), decimal.Decimal("365.5"), 1+0j,
               np.longdouble(725.5), -0.0, 1e-320, 359.99999999999994, -360, np.uint8(200)]
    metas = [None, {}, {"a": 1}, {"file name(s)": "x.mseed"}, {"current degrees from north": 77, "z": [1, 2]},
             {"deployed degrees from north": "d", "b": {"c": (1, 2)}}, OrderedDict([("k", 1), ("file name(s)", "o")]),
             {1: "int key", (1, 2): "tuple key", None: 3}, [("a", 1)], "abc", 5, (("a", 1),), {"nested": {"x": [1]}}]
    for i, deg in enumerate(degrees):
        rec_and = attempt(f"G.ctor.deg{i} {describe(deg)}", lambda: make_record(10, 0.1, degrees=deg)[0])
    for i, meta in enumerate(metas):
        rec = attempt(f"G.ctor.meta{i}", lambda: make_record(10, 0.1, meta=meta)[0])
        if not is_exc(rec) and isinstance(meta, dict):
            emit(f"G.ctor.meta{i}.alias", rec.meta is meta,
                 [rec.meta[k] is meta[k] for k in meta], list(rec.meta))
            rec.meta["added"] = 1
            emit(f"G.ctor.meta{i}.src", describe(meta))
    rec, comps = make_record(20, 0.1, degrees=30, meta={"a": [1]})
    emit("G.ctor.indep", [getattr(rec, c) is t for c, t in zip(("ns", "ew", "vt"), comps)],
         [np.shares_memory(getattr(rec, c).amplitude, t.amplitude) for c, t in zip(("ns", "ew", "vt"), comps)],
         [type(getattr(rec, c)).__name__ for c in ("ns", "ew", "vt")])
    comps[0].amplitude[:] = 0
    emit("G.ctor.indep2", describe(rec))
    # dissimilar / not time series / same object thrice / keyword and positional use
    a, b, c = (TimeSeries(np.arange(10.), 0.1) for _ in range(3))
    short = TimeSeries(np.arange(9.), 0.1)
    other_dt = TimeSeries(np.arange(10.), 0.2)
    near_dt = TimeSeries(np.arange(10.), 0.1 + 1e-9)
    for i, args in enumerate([(a, b, short), (a, short, c), (short, a, b), (a, other_dt, c), (a, b, near_dt), (a, a, a),
                              (a, b, [1, 2]), ([1, 2], a, b), (a, None, b), (a, b), (a, b, c, 10, {"m": 1}),
                              (a, b, c, 10, {"m": 1}, 3), (a.amplitude, b.amplitude, c.amplitude)]):
        attempt(f"G.ctor.args{i}", lambda: SeismicRecording3C(*args))
    attempt("G.ctor.kw", lambda: SeismicRecording3C(vt=a, ns=b, ew=c, meta={"q": 1}, degrees_from_north=-5))

    class SubTS(TimeSeries):
        pass

    class SubRec(SeismicRecording3C):
        pass
    sub = SubRec(SubTS([1., 2., 3.], 0.1), SubTS([1., 2., 4.], 0.1), SubTS([1., 2., 5.], 0.1))
    emit("G.sub", type(sub.ns).__name__, type(sub.split(0.1)[0]).__name__,
         type(SubRec.from_seismic_recording_3c(sub)).__name__,
         type(SeismicRecording3C.from_seismic_recording_3c(sub)).__name__,
         type(SubRec._from_dict(sub._to_dict())).__name__)
    sub.ns = SubTS([1., 2., 3.], 0.1)
    emit("G.sub2", type(SubRec.from_seismic_recording_3c(sub).ns).__name__)
    attempt("G.hash", hash, sub)
    emit("G.pickle", describe(pickle.loads(pickle.dumps(rec))), describe(copy.deepcopy(rec)))


class WriteRecorder:
    """File-like object that remembers the calls it received."""

    def __init__(self, fail_after=None):
        self.calls = []
        self.fail_after = fail_after
        self.closed = False

    def write(self, text):
        if self.fail_after is not None and len(self.calls) >= self.fail_after:
            raise OSError(28, "No space left on device")
        self.calls.append(("write", text))
        return len(text)

    def writelines(self, lines):
        self.calls.append(("writelines", list(lines)))

    def flush(self):
        self.calls.append(("flush",))

    def __enter__(self):
        return self

    def __exit__(self, *exc):
        self.closed = True
        return False


def observe_save(label, rec, name="rec.json"):
    path = os.path.join(TMP, name)
    if os.path.exists(path):
        os.remove(path)
    result = attempt(label + ".save", rec.save, path)
    if os.path.exists(path):
        with open(path, "rb") as f:
            data = f.read()
        emit(label + ".file", len(data), hashlib.sha256(data).hexdigest(), data[:60], data[-60:])
    else:
        emit(label + ".file", "absent")
    return path, result


def block_record_sequences():
    ops = ["trim", "detrend", "split", "window", "filter", "orient", "copy", "saveload", "todict", "eq"]
    for case in range(260):
        special = RNG.random() < 0.15
        meta = pick(["default", "default", None, {"site": "A", "n": 3}, {"file name(s)": ["a", "b"]}])
        deg = pick([None, None, 0, 20.5, 380, -45, np.float32(12.5), 359.5])
        rec, _ = make_record(degrees=deg, meta=copy.deepcopy(meta) if isinstance(meta, dict) else meta, special=special)
        emit(f"G.seq{case}.start", describe(rec))
        for step in range(int(RNG.integers(1, 6))):
            op = pick(ops)
            label = f"G.seq{case}.{step}.{op}"
            n = rec.ns.n_samples
            dt = rec.ns.dt_in_seconds
            if op == "trim":
                last = (n-1)*dt
                a, b = sorted(RNG.uniform(0, max(last, dt), 2))
                choice = RNG.random()
                if choice < 0.2:
                    a, b = float(int(RNG.integers(0, max(n-1, 1)))*dt), last
                elif choice < 0.3:
                    a, b = b, a
                elif choice < 0.4:
                    b = last + dt
                elif choice < 0.5:
                    a, b = as_scalar_variant(a, pick(["np32", "np64", "int", "frac"])), as_scalar_variant(b, pick(["np32", "np64", "frac"]))
                bases = [getattr(rec, c).amplitude for c in ("ns", "ew", "vt")]
                attempt(label + f" {describe(a)} {describe(b)}", rec.trim, a, b)
                emit(label + ".views", [np.shares_memory(getattr(rec, c).amplitude, base)
                                        for c, base in zip(("ns", "ew", "vt"), bases)])
            elif op == "detrend":
                kind = pick(["linear", "constant", "linear", "constant", "c", "l", "bogus", None])
                if RNG.random() < 0.3:
                    attempt(label + " default", rec.detrend)
                else:
                    attempt(label + f" {kind}", rec.detrend, kind)
            elif op == "split":
                wl = pick([dt*max(int(RNG.integers(1, max(n, 2))), 1), float(RNG.uniform(0.5, max(n, 2)))*dt,
                           (n-1)*dt, n*dt, 2*n*dt, 0.0, -dt, np.float32(3*dt), np.float64(4*dt)])
                result = attempt(label + f" {describe(wl)}", rec.split, wl)
                if not is_exc(result):
                    emit(label + ".type", type(result).__name__, len(result))
                    for i, w in enumerate(result):
                        emit(label + f".w{i}", describe(w), w.meta is rec.meta,
                             [np.shares_memory(getattr(w, c).amplitude, getattr(rec, c).amplitude) for c in ("ns", "ew", "vt")])
                    if result and RNG.random() < 0.5:
                        result[0].meta["child"] = True
                        result[0].ns.amplitude[:] = 0
                        rec_new = pick(result)
                        emit(label + ".parent", describe(rec))
                        rec = rec_new
            elif op == "window":
                width = pick([0.1, 0.0, 0.5, 1.0, float(RNG.uniform(0, 1)), 1.5, -1, None, np.float32(0.2)])
                wtype = pick(["tukey", "tukey", "tukey", "hann", None])
                r = RNG.random()
                if r < 0.2:
                    attempt(label + " default", rec.window)
                elif r < 0.4:
                    attempt(label + f" kw {describe(width)}", rec.window, width=width)
                else:
                    attempt(label + f" {describe(wtype)} {describe(width)}", rec.window, wtype, width)
            elif op == "filter":
                fn = 0.5/dt
                lo, hi = sorted(RNG.uniform(0.001, 0.999, 2)*fn)
                fcs = pick([(lo, hi), (None, hi), (lo, None), [lo, hi], (None, None), [None, None], (hi, lo),
                            (None, 2*fn), (lo,), np.array([lo, hi]), (np.float32(lo), None)])
                order = pick([5, 5, 1, 2, 3, 4, 0, 2.5])
                if RNG.random() < 0.4:
                    attempt(label + f" {describe(fcs)} default", rec.butterworth_filter, fcs)
                else:
                    attempt(label + f" {describe(fcs)} {order}", rec.butterworth_filter, fcs, order=order)
                emit(label + ".alias", rec.meta.get("butterworth_filter") is fcs)
            elif op == "orient":
                target = pick([0, 0.0, 90, 45.0, 30.5, 360, 400.25, -15, float(RNG.uniform(-720, 720)), np.float32(12.25),
                               np.float64(181.0), np.int64(270), rec.degrees_from_north, np.nan, "a", None, 1e-9, 180,
                               float(RNG.uniform(0, 360))])
                olds = [rec.ew.amplitude, rec.ns.amplitude, rec.vt.amplitude]
                snaps = [o.copy() for o in olds]
                attempt(label + f" {describe(target)}", rec.orient_sensor_to, target)
                emit(label + ".alias", rec.ew.amplitude is olds[0], rec.ns.amplitude is olds[1], rec.vt.amplitude is olds[2],
                     [same_values(s, o, equal_nan=True) for s, o in zip(snaps, olds)],
                     [np.shares_memory(getattr(rec, c).amplitude, o) for c, o in zip(("ew", "ns"), olds)])
            elif op == "copy":
                cp = attempt(label, SeismicRecording3C.from_seismic_recording_3c, rec)
                if not is_exc(cp):
                    emit(label + ".indep", cp.meta is rec.meta, cp.ns is rec.ns,
                         [np.shares_memory(getattr(cp, c).amplitude, getattr(rec, c).amplitude) for c in ("ns", "ew", "vt")])
                    attempt(label + ".eq", lambda: (cp == rec, cp != rec, cp.is_similar(rec), rec == cp))
                    if RNG.random() < 0.5:
                        cp.meta["copied"] = step
                        cp.vt.amplitude[0] = 1234.5
                        emit(label + ".orig", describe(rec))
                        rec = cp
            elif op == "saveload":
                path, result = observe_save(label, rec, f"seq{case}_{step}.json")
                if not is_exc(result):
                    loaded = attempt(label + ".load", SeismicRecording3C.load, path)
                    if not is_exc(loaded):
                        attempt(label + ".eq", lambda: (loaded == rec, loaded.is_similar(rec)))
                        if RNG.random() < 0.5:
                            rec = loaded
            elif op == "todict":
                d = attempt(label, rec._to_dict)
                if not is_exc(d):
                    emit(label + ".alias", list(d), d["meta"] is rec.meta, type(d).__name__,
                         type(d["ns_amplitude"]).__name__, [type(v).__name__ for v in d["ns_amplitude"][:2]])
                    back = attempt(label + ".from", SeismicRecording3C._from_dict, d)
                    if not is_exc(back):
                        emit(label + ".from.alias", back.meta is rec.meta)
            elif op == "eq":
                other = SeismicRecording3C.from_seismic_recording_3c(rec)
                tweak = pick(["none", "meta", "deg_small", "deg_big", "amp", "amp_tiny", "len", "dt", "deg_nan"])
                if tweak == "meta":
                    other.meta["x"] = 1
                elif tweak == "deg_small":
                    other.degrees_from_north += 0.05
                elif tweak == "deg_big":
                    other.degrees_from_north += 0.2
                elif tweak == "amp":
                    other.ew.amplitude[0] += 1.0
                elif tweak == "amp_tiny":
                    other.ew.amplitude[0] += 1e-12
                elif tweak == "len":
                    other.vt.amplitude = other.vt.amplitude[:-1]
                elif tweak == "dt":
                    other.ns.dt_in_seconds *= 1.01
                elif tweak == "deg_nan":
                    other.degrees_from_north = np.nan
                attempt(label + f" {tweak}", lambda: (rec == other, other == rec, rec != other, rec.is_similar(other),
                                                      rec == "x", rec.is_similar(None), rec == rec.ns))
            emit(label + ".state", describe(rec))
        attempt(f"G.seq{case}.repr", lambda: (str(rec), hashlib.sha256(norm_text(repr(rec)).encode()).hexdigest()))


def block_record_partial_failures():
    # failure midway leaves earlier components processed and meta noted.
    for i, (method, args) in enumerate([("trim", (0.5, 8.0)), ("trim", (-1, 2)), ("trim", (0.0, 100.0)),
                                        ("detrend", ("bogus",)), ("window", ("hann", 0.1)), ("window", ("tukey", None)),
                                        ("butterworth_filter", ((1.0, 99.0),)), ("butterworth_filter", ((1.0,),)),
                                        ("butterworth_filter", ((1.0, 2.0), 0)), ("split", (100.0,)), ("split", (0.0,)),
                                        ("split", (5.0,)), ("split", (2.0,)), ("orient_sensor_to", ("a",)),
                                        ("orient_sensor_to", (33.0,)), ("detrend", ("linear",)), ("window", ("tukey", 0.2)),
                                        ("butterworth_filter", ((0.5, 2.0),))]):
        for variant in ("ew_short", "vt_int", "ew_missing", "ns_list", "vt_readonly", "meta_none", "ew_is_ns", "ns_2d"):
            rec, _ = make_record(100, 0.1, degrees=10)
            if variant == "ew_short":
                rec.ew.amplitude = rec.ew.amplitude[:50]
            elif variant == "vt_int":
                rec.vt.amplitude = np.arange(100)
            elif variant == "ew_missing":
                del rec.ew
            elif variant == "ns_list":
                rec.ns.amplitude = list(rec.ns.amplitude)
            elif variant == "vt_readonly":
                rec.vt.amplitude.setflags(write=False)
            elif variant == "meta_none":
                rec.meta = None
            elif variant == "ew_is_ns":
                rec.ew = rec.ns
            elif variant == "ns_2d":
                rec.ns.amplitude = rec.ns.amplitude.reshape(50, 2)
            label = f"G.partial{i}.{method}.{variant}"
            result = attempt(label, getattr(rec, method), *args)
            if isinstance(result, list):
                emit(label + ".n", len(result), [describe(r) for r in result[:3]])
            state = []
            for c in ("ns", "ew", "vt"):
                ts = getattr(rec, c, None)
                state.append(describe(ts.amplitude) if ts is not None and isinstance(ts.amplitude, np.ndarray)
                             else f"{type(ts).__name__}:{len(ts.amplitude) if ts is not None else '-'}")
            emit(label + ".state", state, describe(rec.degrees_from_north), describe(rec.meta))
    # copy / _to_dict / save on damaged or duck-typed input
    rec, _ = make_record(20, 0.1)

    class Duck:
        pass
    duck = Duck()
    duck.ns, duck.ew, duck.vt = rec.ns, rec.ew, rec.vt
    duck.degrees_from_north, duck.meta = 725, {"duck": True}
    attempt("G.copy.duck", SeismicRecording3C.from_seismic_recording_3c, duck)
    del duck.vt
    attempt("G.copy.duck.novt", SeismicRecording3C.from_seismic_recording_3c, duck)
    del duck.ns
    attempt("G.copy.duck.nons", SeismicRecording3C.from_seismic_recording_3c, duck)
    attempt("G.copy.none", SeismicRecording3C.from_seismic_recording_3c, None)
    rec.ew.amplitude = list(rec.ew.amplitude)
    attempt("G.todict.list", rec._to_dict)
    observe_save("G.save.list", rec, "damaged.json")
    del rec.vt
    attempt("G.todict.novt", rec._to_dict)
    attempt("G.is_similar.novt", lambda: make_record(20, 0.1)[0].is_similar(rec))
    attempt("G.eq.novt", lambda: make_record(20, 0.1)[0] == rec)


def block_save_load():
    specials = [np.nan, np.inf, -np.inf, -0.0, 5e-324, 1.7976931348623157e308, 0.1, 1/3, 1e-7, 123456789.123456789, 1e22, 1e16]
    metas = [None, {"a": 1}, {"t": (1, 2)}, {"u": "é中\U0001f600"}, {"n": None, "b": True, "f": 1.5, "l": [1, [2, {"x": 3}]]},
             {"bad": np.int64(3)}, {"bad": np.float32(1.5)}, {"ok": np.float64(2.5)}, {"bad": {1, 2}}, {"bad": np.arange(3)},
             {"bad": b"bytes"}, {1: "int key"}, {(1, 2): "tuple key"}, {None: 1, True: 2, 1.5: 3}, {"late": [1, 2, object()]},
             {"z": 1e400, "nan": float("nan")}, {"deep": {"a": {"b": {"c": [1, 2, 3]}}}}, {"file name(s)": ["x", "y"]},
             {"cyc": None}, {"big": 2**100}, {"frac": fractions.Fraction(1, 3)}, {"dec": decimal.Decimal("1.5")},
             {"ts": TimeSeries([1.0], 1.0)}, {"e": ""}, {"": "empty key"}, {"q": "quote\"back\\slash\nnewline"}]
    for i, meta in enumerate(metas):
        n = int(pick([1, 2, 7, 100, 3000]))
        meta = copy.copy(meta)
        if meta is not None and "cyc" in meta:
            meta["cyc"] = meta
        rec, _ = make_record(n, pick([0.01, 1/3, 0.1]), degrees=pick([None, 12.5, 400, np.float32(0.1)]), meta=meta)
        if RNG.random() < 0.5:
            for c in ("ns", "ew", "vt"):
                getattr(rec, c).amplitude[int(RNG.integers(n))] = pick(specials)
        label = f"H.save{i}"
        path, result = observe_save(label, rec, f"save{i}.json")
        if not is_exc(result):
            loaded = attempt(label + ".load", SeismicRecording3C.load, path)
            if not is_exc(loaded):
                attempt(label + ".eq", lambda: loaded == rec)
                with open(path) as f:
                    text = f.read()
                emit(label + ".same_as_json", text == json.dumps(rec._to_dict()))
        # call pattern seen by the file object
        recorder = WriteRecorder()
        sr3c_module.open = lambda *args, **kwargs: (recorder.calls.append(("open", args, kwargs)), recorder)[1]
        try:
            attempt(label + ".pattern", rec.save, "fake/path.json")
        finally:
            del sr3c_module.open
        text_calls = hashlib.sha256(repr(recorder.calls).encode("utf-8", "backslashreplace")).hexdigest()
        emit(label + ".pattern.calls", len(recorder.calls), text_calls, recorder.closed, recorder.calls[:4])
        # device fills up part way.
        recorder = WriteRecorder(fail_after=int(RNG.integers(0, 12)))
        sr3c_module.open = lambda *args, **kwargs: recorder
        try:
            attempt(label + ".full", rec.save, "fake/path.json")
        finally:
            del sr3c_module.open
        emit(label + ".full.calls", len(recorder.calls), recorder.closed, recorder.calls[-2:])
    # save after orient (degrees no longer a float), to odd destinations, overwriting
    rec, _ = make_record(50, 0.1)
    for target in (np.float32(33.5), np.int64(10), 400, np.float64(20.0), fractions.Fraction(45, 2)):
        attempt(f"H.orient {describe(target)}", rec.orient_sensor_to, target)
        path, result = observe_save(f"H.orient {describe(target)}", rec, "orient.json")
        if not is_exc(result):
            attempt(f"H.orient {describe(target)}.load", SeismicRecording3C.load, path)
    rec, _ = make_record(5, 0.1)
    existing = os.path.join(TMP, "existing.json")
    with open(existing, "w") as f:
        f.write("x"*100000)
    observe_save("H.overwrite", rec, "existing.json")
    rec.meta["bad"] = {1, 2}
    observe_save("H.overwrite.bad", rec, "existing.json")
    attempt("H.nodir", rec.save, os.path.join(TMP, "missing_dir", "x.json"))
    attempt("H.isdir", rec.save, TMP)
    attempt("H.none", rec.save, None)
    attempt("H.load.missing", SeismicRecording3C.load, os.path.join(TMP, "nope.json"))
    attempt("H.load.isdir", SeismicRecording3C.load, TMP)
    rec, _ = make_record(5, 0.1)
    import pathlib
    p = pathlib.Path(TMP)/"pathlib.json"
    attempt("H.pathlib.save", rec.save, p)
    attempt("H.pathlib.load", SeismicRecording3C.load, p)
    attempt("H.bytes_path.save", rec.save, os.fsencode(os.path.join(TMP, "bytes.json")))
    attempt("H.bytes_path.load", SeismicRecording3C.load, os.fsencode(os.path.join(TMP, "bytes.json")))
    fd_path = os.path.join(TMP, "fd.json")
    fd = os.open(fd_path, os.O_WRONLY | os.O_CREAT)
    attempt("H.fd.save", rec.save, fd)
    with open(fd_path, "rb") as f:
        emit("H.fd.file", hashlib.sha256(f.read()).hexdigest())
    # malformed files
    good = rec._to_dict()
    contents = ["", "{", "[]", "[1, 2]", "null", "3", '"text"', "{}", json.dumps({k: v for k, v in good.items() if k != "meta"}),
                json.dumps({k: v for k, v in good.items() if k != "dt_in_seconds"}),
                json.dumps({k: v for k, v in good.items() if k != "ns_amplitude"}),
                json.dumps({k: v for k, v in good.items() if k not in ("ns_amplitude", "dt_in_seconds")}),
                json.dumps({k: v for k, v in good.items() if k != "vt_amplitude"}),
                json.dumps({k: v for k, v in good.items() if k != "degrees_from_north"}),
                json.dumps({k: v for k, v in good.items() if k not in ("degrees_from_north", "meta", "vt_amplitude")}),
                json.dumps({**good, "ew_amplitude": good["ew_amplitude"][:-1]}),
                json.dumps({**good, "ew_amplitude": "abc"}), json.dumps({**good, "vt_amplitude": [[1, 2], [3, 4]]}),
                json.dumps({**good, "dt_in_seconds": "0.1"}), json.dumps({**good, "dt_in_seconds": None}),
                json.dumps({**good, "dt_in_seconds": [0.1]}), json.dumps({**good, "degrees_from_north": "ten"}),
                json.dumps({**good, "degrees_from_north": None}), json.dumps({**good, "degrees_from_north": 1000}),
                json.dumps({**good, "meta": None}), json.dumps({**good, "meta": [1, 2]}), json.dumps({**good, "meta": "abc"}),
                json.dumps({**good, "meta": {"current degrees from north": 5}}), json.dumps({**good, "extra": 1}),
                json.dumps({**good, "ns_amplitude": [None]*5}), json.dumps({**good, "ns_amplitude": [True]*5}),
                json.dumps(good) + "trailing", " \n" + json.dumps(good, indent=2) + "\n", json.dumps(good).replace("0.", "0.0", 1),
                json.dumps({**good, "ns_amplitude": [float("nan"), float("inf"), -float("inf"), 1, 2]}), "﻿" + json.dumps(good)]
    for i, content in enumerate(contents):
        path = os.path.join(TMP, f"malformed{i}.json")
        with open(path, "w", encoding="utf-8") as f:
            f.write(content)
        loaded = attempt(f"H.malformed{i}", SeismicRecording3C.load, path)
    with open(os.path.join(TMP, "binary.json"), "wb") as f:
        f.write(b"\xff\xfe\x00{")
    attempt("H.binary", SeismicRecording3C.load, os.path.join(TMP, "binary.json"))
    # _from_dict with other mappings and sharing
    data = rec._to_dict()
    data["meta"] = {"shared": [1, 2]}
    back = SeismicRecording3C._from_dict(data)
    emit("H.from_dict.share", back.meta is data["meta"], back.meta["shared"] is data["meta"]["shared"])
    attempt("H.from_dict.ordered", SeismicRecording3C._from_dict, OrderedDict(data))
    attempt("H.from_dict.list", SeismicRecording3C._from_dict, [1, 2, 3])
    attempt("H.from_dict.none", SeismicRecording3C._from_dict, None)

    class Recorder(dict):
        def __init__(self, *a):
            super().__init__(*a)
            self.seen = []

        def __getitem__(self, key):
            self.seen.append(key)
            return super().__getitem__(key)
    spy = Recorder(data)
    attempt("H.from_dict.spy", SeismicRecording3C._from_dict, spy)
    emit("H.from_dict.spy.order", spy.seen)
    spy = Recorder({})
    attempt("H.from_dict.spy.empty", SeismicRecording3C._from_dict, spy)
    emit("H.from_dict.spy.empty.order", spy.seen)


def block_pipeline():
    """The classes as used by the rest of the package."""
    for case in range(12):
        n = int(pick([3000, 6001, 12000]))
        dt = pick([0.01, 0.005, 1/128])
        rec, _ = make_record(n, dt, degrees=pick([None, 15.0, 380]))
        settings = hvsrpy.settings.HvsrPreProcessingSettings(
            detrend=pick(["linear", "constant", None]),
            window_length_in_seconds=pick([5., 10., 7.3, None]),
            orient_to_degrees_from_north=pick([0., 30., None]),
            filter_corner_frequencies_in_hz=pick([(None, None), (0.2, None), (0.1, 20.), (None, 30.)]),
        )
        records = attempt(f"I.pre{case}", hvsrpy.preprocess, rec, settings)
        if not is_exc(records):
            emit(f"I.pre{case}.n", len(records), hashlib.sha256(repr([describe(r) for r in records]).encode()).hexdigest())
            psettings = hvsrpy.settings.HvsrTraditionalProcessingSettings()
            hvsr = attempt(f"I.proc{case}", lambda: hvsrpy.process(records, psettings))
            if not is_exc(hvsr):
                emit(f"I.proc{case}.amp", describe(hvsr.amplitude), describe(hvsr.frequency))


def main():
    try:
        np.seterr(all="ignore")
        block_constructor()
        block_trim()
        block_split()
        block_detrend_window_filter()
        block_record_constructor()
        block_record_sequences()
        block_record_partial_failures()
        block_save_load()
        block_pipeline()
    finally:
        shutil.rmtree(TMP, ignore_errors=True)
    if "--dump" in sys.argv:
        with open(sys.argv[sys.argv.index("--dump") + 1], "w", encoding="utf-8", errors="backslashreplace") as f:
            f.write("\n".join(LINES))
    print(f"DIGEST {HASH.hexdigest()}")


if __name__ == "__main__":
    main()
