"""Equivalence probe for hvsrpy's persistence code.

Exercises write_hvsr_object_to_file / read_hvsr_object_from_file,
write_settings_object_to_file / read_settings_object_from_file,
Settings.save / load and SeismicRecording3C.save / load / _to_dict with
several hundred seeded random inputs and call sequences (including error
paths and unusual argument types) and prints one line

    DIGEST <sha256>

of everything observable: returned values (bit for bit), contents and
modes of written files, directory listings, exception types/messages.

Set EQUIV_LOG=<file> to also dump every observation (for diffing).
"""

import fcntl
import gzip
import hashlib
import io
import json
import logging
import os
import pathlib
import random
import shutil
import stat
import sys
import tempfile
import warnings

import numpy as np

import hvsrpy
from hvsrpy import object_io
from hvsrpy.settings import Settings

warnings.simplefilter("ignore")
logging.getLogger("hvsrpy").setLevel(logging.CRITICAL)

HERE = os.path.dirname(os.path.abspath(__file__))
TMP = tempfile.mkdtemp(prefix="equiv_tmp_", dir=HERE)
_DIGEST = hashlib.sha256()
_LOG = open(os.environ["EQUIV_LOG"], "w") if os.environ.get("EQUIV_LOG") else None
_COUNT = [0]


# --------------------------------------------------------------------------
# recording of observations
# --------------------------------------------------------------------------

def _clean(text):
    return text.replace(TMP, "<TMP>")


def canon(value, depth=0):
    """Canonical, type-revealing text for ``value``."""
    if depth > 100:
        return "<deeper>"
    if isinstance(value, np.ndarray):
        flags = (value.flags.c_contiguous, value.flags.f_contiguous,
                 value.flags.writeable)
        return (f"ndarray({value.dtype.str},{value.shape},{value.strides},"
                f"{flags},{value.tobytes().hex()})")
    if isinstance(value, np.generic):
        return f"{type(value).__name__}({value.tobytes().hex()})"
    if isinstance(value, bool) or value is None:
        return repr(value)
    if isinstance(value, float):
        return f"float({value.hex()})"
    if isinstance(value, int):
        return f"int({value})"
    if isinstance(value, str):
        return f"str({_clean(value)!r})"
    if isinstance(value, bytes):
        return f"bytes({value.hex()})"
    if isinstance(value, dict):
        inner = ",".join(f"{canon(k)}:{canon(v, depth + 1)}" for k, v in value.items())
        return "{" + inner + "}"
    if isinstance(value, (list, tuple)):
        inner = ",".join(canon(v, depth + 1) for v in value)
        return f"{type(value).__name__}[{inner}]"
    if isinstance(value, BaseException):
        return describe_exception(value)
    return f"<{type(value).__name__}>"


def describe_exception(e):
    parts = [type(e).__name__]
    if isinstance(e, OSError):
        parts.append(str(e.errno))
        filename = e.filename
        if isinstance(filename, bytes):
            filename = "b:" + filename.decode("utf-8", "replace")
        parts.append(_clean(repr(filename)))
    if isinstance(e, UnicodeError) and hasattr(e, "start"):
        parts.append(f"{e.encoding},{e.start},{e.end},{e.reason}")
    parts.append(_clean(str(e)))
    return "EXC(" + "|".join(parts) + ")"


def obs(tag, value):
    line = f"{tag} = {canon(value)}"
    _DIGEST.update(line.encode("utf-8", "backslashreplace"))
    _DIGEST.update(b"\n")
    _COUNT[0] += 1
    if _LOG is not None:
        if len(line) > 4000:
            line = line[:4000] + " ...#" + hashlib.sha256(line.encode("utf-8", "backslashreplace")).hexdigest()[:16]
        _LOG.write(line + "\n")


def attempt(tag, function, *args, **kwargs):
    """Call, record outcome (value or exception), return value or None."""
    try:
        result = function(*args, **kwargs)
    except Exception as e:  # noqa
        obs(tag + ":raised", e)
        return None
    else:
        obs(tag + ":ok", True)
        return result


def file_state(path):
    """Observable state of directory entry ``path`` (str)."""
    try:
        linfo = os.lstat(path)
    except OSError as e:
        return ("absent", type(e).__name__)
    kind = stat.S_IFMT(linfo.st_mode)
    if stat.S_ISLNK(linfo.st_mode):
        try:
            info = os.stat(path)
        except OSError:
            return ("dangling-link", os.readlink(path))
        with open(path, "rb") as f:
            data = f.read()
        return ("link", os.readlink(path), stat.S_IMODE(info.st_mode),
                info.st_nlink, data)
    if stat.S_ISDIR(linfo.st_mode):
        return ("dir", sorted(os.listdir(path)))
    if stat.S_ISREG(linfo.st_mode):
        with open(path, "rb") as f:
            data = f.read()
        return ("file", stat.S_IMODE(linfo.st_mode), linfo.st_nlink, data)
    return ("other", kind)


def dir_state(path):
    return sorted(os.listdir(path))


def open_fd_count():
    return len(os.listdir("/proc/self/fd")) if os.path.isdir("/proc/self/fd") else -1


class FsPath:
    """Minimal os.PathLike."""

    def __init__(self, value):
        self.value = value

    def __fspath__(self):
        return self.value


class StrSub(str):
    pass


def name_variants(rng, base):
    """Legal ways to name the file ``base`` (relative to cwd == a fresh dir)."""
    absolute = os.path.join(os.getcwd(), base)
    return [
        ("str", base),
        ("abs", absolute),
        ("path", pathlib.Path(base)),
        ("abspath", pathlib.Path(absolute)),
        ("purepath", pathlib.PurePosixPath(base)),
        ("bytes", os.fsencode(base)),
        ("fspath", FsPath(base)),
        ("fspath-bytes", FsPath(os.fsencode(base))),
        ("strsub", StrSub(base)),
        ("dot", "./" + base),
        ("dslash", ".//" + base),
        ("updown", "../" + os.path.basename(os.getcwd()) + "/" + base),
    ]


def fresh_dir(label):
    path = os.path.join(TMP, label)
    os.makedirs(path)
    os.chdir(path)
    return path


# --------------------------------------------------------------------------
# random inputs
# --------------------------------------------------------------------------

def random_json_value(rng, depth=0):
    kind = rng.randrange(11 if depth < 3 else 7)
    if kind == 0:
        return rng.uniform(-1e6, 1e6)
    if kind == 1:
        return rng.randrange(-10**6, 10**6)
    if kind == 2:
        return rng.choice(["", "abc", "tukey", "café", "line\nbreak", " x",
                           "quote\"s", "back\\slash", "\U0001f600", "tab\t"])
    if kind == 3:
        return rng.choice([True, False, None])
    if kind == 4:
        return rng.choice([float("nan"), float("inf"), float("-inf"), -0.0,
                           5e-324, 1.7976931348623157e308, 0.1 + 0.2])
    if kind == 5:
        return rng.choice([10**25, -10**19, 2**63])
    if kind == 6:
        return rng.choice([(1, 2.5), (), ("a", None)])
    if kind in (7, 8):
        return [random_json_value(rng, depth + 1) for _ in range(rng.randrange(4))]
    keys = ["k", "alpha", "b c", "ü", 1, 2.5, True, None, "nested"]
    return {rng.choice(keys): random_json_value(rng, depth + 1)
            for _ in range(rng.randrange(4))}


class Unserializable:
    pass


def random_bad_value(rng):
    return rng.choice([
        lambda: Unserializable(),
        lambda: {1, 2},
        lambda: np.float32(1.5),
        lambda: np.int64(3),
        lambda: b"bytes",
        lambda: 1 + 2j,
        lambda: {(1, 2): "tuple key"},
        lambda: [1, [2, [3, Unserializable()]]],
        lambda: {"a": 1, "b": {"c": [1, 2, {4}]}},
    ])()


SETTINGS_CLASSES = [
    hvsrpy.HvsrPreProcessingSettings,
    hvsrpy.PsdPreProcessingSettings,
    hvsrpy.PsdProcessingSettings,
    hvsrpy.HvsrTraditionalProcessingSettings,
    hvsrpy.HvsrTraditionalSingleAzimuthProcessingSettings,
    hvsrpy.HvsrTraditionalRotDppProcessingSettings,
    hvsrpy.HvsrAzimuthalProcessingSettings,
    hvsrpy.HvsrDiffuseFieldProcessingSettings,
]


def random_settings(rng):
    cls = rng.choice(SETTINGS_CLASSES)
    settings = cls()
    for name in list(settings.attrs):
        roll = rng.random()
        if name in ("processing_method", "preprocessing_method",
                    "method_to_combine_horizontals"):
            if roll < 0.1:
                setattr(settings, name, rng.choice(
                    ["psd", "hvsr", "azimuthal", "diffuse_field", "traditional",
                     "rotdpp", "single_azimuth", "directional_energy",
                     "arithmetic_mean", "bogus", 3, None, ["traditional"],
                     {"a": 1}, True, 2.5]))
            continue
        if roll < 0.25:
            setattr(settings, name, random_json_value(rng))
        elif roll < 0.35:
            setattr(settings, name, np.array([rng.uniform(0, 100)
                                              for _ in range(rng.randrange(5))]))
        elif roll < 0.40:
            setattr(settings, name, np.arange(rng.randrange(4)))
        elif roll < 0.45 and isinstance(getattr(settings, name), dict):
            getattr(settings, name)["center_frequencies_in_hz"] = np.geomspace(
                rng.uniform(0.01, 1), rng.uniform(2, 50), rng.randrange(2, 9))
    return settings


def settings_state(settings):
    state = {}
    for key, value in vars(settings).items():
        state[key] = value
    return state


def random_recording(rng, nprng):
    n = rng.choice([2, 3, 5, 17, 64, 200, 1000])
    dt = rng.choice([0.01, 0.005, 1 / 3, 1.0, 1e-3, 0.1 + 0.2])
    scale = rng.choice([1.0, 1e-12, 1e12, 1e-300, 1e300])
    amp = nprng.standard_normal((3, n)) * scale
    if rng.random() < 0.2:
        amp[rng.randrange(3), rng.randrange(n)] = rng.choice([0.0, -0.0, 5e-324])
    if rng.random() < 0.15:
        amp = np.round(amp)
    ns, ew, vt = [hvsrpy.TimeSeries(a, dt) for a in amp]
    degrees = rng.choice([0., 15., -30., 725.5, 359.999, rng.uniform(-1000, 1000),
                          rng.randrange(-400, 400)])
    meta = None
    if rng.random() < 0.7:
        meta = {}
        for _ in range(rng.randrange(4)):
            meta[rng.choice(["file name(s)", "note", "deployed degrees from north",
                             "x y", "é", "list"])] = random_json_value(rng)
    rec = hvsrpy.SeismicRecording3C(ns, ew, vt, degrees_from_north=degrees, meta=meta)
    for _ in range(rng.randrange(3)):
        op = rng.randrange(5)
        try:
            if op == 0:
                rec.detrend(rng.choice(["linear", "constant"]))
            elif op == 1:
                rec.window(width=rng.choice([0.1, 0.5]))
            elif op == 2:
                rec.orient_sensor_to(rng.uniform(0, 360))
            elif op == 3 and n > 10:
                rec.trim(dt * 1, dt * (n - 3))
            elif op == 4 and n > 50:
                rec.butterworth_filter((None, 0.2 / dt))
        except Exception:
            pass
    return rec


def recording_state(rec):
    return {"ns": rec.ns.amplitude, "ew": rec.ew.amplitude, "vt": rec.vt.amplitude,
            "dt": [rec.ns.dt_in_seconds, rec.ew.dt_in_seconds, rec.vt.dt_in_seconds],
            "deg": rec.degrees_from_north, "meta": rec.meta}


def random_curves(rng, nprng, n_curves, frequency):
    amplitude = np.empty((n_curves, len(frequency)))
    for i in range(n_curves):
        f0 = rng.uniform(frequency[0], frequency[-1])
        width = rng.uniform(0.1, 1.0)
        base = 1 + rng.uniform(1, 8) * np.exp(-((np.log(frequency) - np.log(f0)) / width) ** 2)
        amplitude[i] = base * np.exp(0.1 * nprng.standard_normal(len(frequency)))
    scale = rng.choice([1.0, 1.0, 1.0, 1e-200, 1e150, 1e-3])
    amplitude *= scale
    if rng.random() < 0.1:
        amplitude[rng.randrange(n_curves)] = 1.0  # flat, no peak
    if rng.random() < 0.05:
        amplitude[rng.randrange(n_curves), rng.randrange(len(frequency))] = np.inf
    if rng.random() < 0.05:
        amplitude[rng.randrange(n_curves), rng.randrange(len(frequency))] = 0.0
    return amplitude


def random_frequency(rng):
    n = rng.choice([3, 4, 7, 16, 40, 128])
    kind = rng.randrange(3)
    if kind == 0:
        return np.geomspace(rng.uniform(0.05, 0.5), rng.uniform(5, 60), n)
    if kind == 1:
        return np.linspace(rng.uniform(0.05, 0.5), rng.uniform(5, 60), n)
    return np.cumsum(np.array([rng.uniform(0.01, 1) for _ in range(n)]))


def random_meta(rng):
    meta = {}
    for _ in range(rng.randrange(4)):
        meta[rng.choice(["site", "operator", "window_length", "notes", "ü"])] = \
            random_json_value(rng)
    return meta


def random_traditional(rng, nprng, frequency=None, n_curves=None, meta=None):
    frequency = random_frequency(rng) if frequency is None else frequency
    n_curves = rng.choice([1] + [2, 3, 4, 6, 12] * 3) if n_curves is None else n_curves
    amplitude = random_curves(rng, nprng, n_curves, frequency)
    hvsr = hvsrpy.HvsrTraditional(frequency, amplitude,
                                  meta=random_meta(rng) if meta is None else meta)
    if rng.random() < 0.5:
        lo = rng.choice([None, float(frequency[0]) * 1.1])
        hi = rng.choice([None, float(frequency[-1]) * 0.9])
        kwargs = rng.choice([None, {}, {"prominence": 0.1}, {"distance": 2}])
        try:
            hvsr.update_peaks_bounded(search_range_in_hz=(lo, hi), find_peaks_kwargs=kwargs)
        except Exception:
            pass
    if rng.random() < 0.5 and n_curves > 1:
        for _ in range(rng.randrange(1, n_curves)):
            idx = rng.randrange(n_curves)
            hvsr.valid_window_boolean_mask[idx] = False
            if rng.random() < 0.8:
                hvsr.valid_peak_boolean_mask[idx] = False
    return hvsr


def random_azimuthal(rng, nprng):
    frequency = random_frequency(rng)
    n_az = rng.choice([1, 2, 3, 5])
    azimuths = sorted(rng.sample([0., 5., 12.5, 30., 45., 90., 135.25, 170., 180.,
                                  1e-3, 1e-5, 33.333333333333336], n_az))
    if rng.random() < 0.2 and n_az > 1:
        azimuths[1] = azimuths[0]  # repeated azimuth
    if rng.random() < 0.2:
        azimuths = [int(a) for a in azimuths]
    same = rng.random() < 0.5
    n_common = rng.choice([1, 2, 2, 4, 4, 5])
    hvsrs = [random_traditional(rng, nprng, frequency=frequency,
                                n_curves=n_common if same else None, meta={})
             for _ in azimuths]
    hvsr = hvsrpy.HvsrAzimuthal(hvsrs, azimuths, meta=random_meta(rng))
    if rng.random() < 0.5:
        hvsr.update_peaks_bounded(search_range_in_hz=(float(frequency[0]) * 1.01, float(frequency[-1]) * 0.95),
                                  find_peaks_kwargs=rng.choice([None, {"prominence": 0.05}]))
    if rng.random() < 0.5:
        for _hvsr in hvsr.hvsrs:
            if _hvsr.n_curves > 1 and rng.random() < 0.5:
                idx = rng.randrange(_hvsr.n_curves)
                _hvsr.valid_window_boolean_mask[idx] = False
                _hvsr.valid_peak_boolean_mask[idx] = False
    return hvsr


def random_diffuse(rng, nprng):
    frequency = random_frequency(rng)
    amplitude = random_curves(rng, nprng, 1, frequency)[0]
    hvsr = hvsrpy.HvsrDiffuseField(frequency, amplitude, meta=random_meta(rng))
    if rng.random() < 0.5:
        hvsr.update_peaks_bounded(search_range_in_hz=(float(frequency[0]) * 1.05, None),
                                  find_peaks_kwargs=rng.choice([None, {"prominence": 0.05}]))
    return hvsr


def random_hvsr(rng, nprng):
    kind = rng.randrange(5)
    if kind < 2:
        hvsr, method = random_traditional(rng, nprng), "traditional"
    elif kind < 4:
        hvsr, method = random_azimuthal(rng, nprng), "azimuthal"
    else:
        hvsr, method = random_diffuse(rng, nprng), "diffuse_field"
    roll = rng.random()
    if roll < 0.90:
        hvsr.meta["processing_method"] = method
    elif roll < 0.95:
        hvsr.meta["processing_method"] = rng.choice(["traditional", "azimuthal", "diffuse_field",
                                                     "psd", None, 3])
    return hvsr


def hvsr_state(hvsr):
    if hvsr is None:
        return None
    state = {"type": type(hvsr).__name__}
    if isinstance(hvsr, hvsrpy.HvsrAzimuthal):
        state["azimuths"] = list(hvsr.azimuths)
        state["hvsrs"] = [hvsr_state(h) for h in hvsr.hvsrs]
        state["meta"] = hvsr.meta
        return state
    state["frequency"] = hvsr.frequency
    state["amplitude"] = hvsr.amplitude
    state["meta"] = hvsr.meta
    for name in ("valid_window_boolean_mask", "valid_peak_boolean_mask",
                 "_main_peak_frq", "_main_peak_amp", "_search_range_in_hz",
                 "_find_peaks_kwargs", "n_curves"):
        if hasattr(hvsr, name):
            state[name] = getattr(hvsr, name)
    try:
        state["peak_frequency"] = hvsr.peak_frequency
        state["peak_amplitude"] = hvsr.peak_amplitude
    except Exception as e:  # noqa
        state["peak_error"] = type(e).__name__
    return state


# --------------------------------------------------------------------------
# scenario helpers
# --------------------------------------------------------------------------

def prepare_target(rng, directory, base, how):
    """Prepare directory entry ``base`` of kind ``how``; returns extra names to watch."""
    path = os.path.join(directory, base)
    if how == "new":
        return []
    if how == "existing-long":
        with open(path, "w") as f:
            f.write("x" * 100000)
        return []
    if how == "existing-0600":
        with open(path, "w") as f:
            f.write("old")
        os.chmod(path, 0o600)
        return []
    if how == "existing-0444":
        with open(path, "w") as f:
            f.write("old")
        os.chmod(path, 0o444)
        return []
    if how == "hardlink":
        other = path + ".twin"
        with open(other, "w") as f:
            f.write("old twin")
        os.link(other, path)
        return [other]
    if how == "symlink":
        other = path + ".target"
        with open(other, "w") as f:
            f.write("old target")
        os.chmod(other, 0o640)
        os.symlink(os.path.basename(other), path)
        return [other]
    if how == "dangling":
        os.symlink(base + ".nowhere", path)
        return [path + ".nowhere"]
    if how == "directory":
        os.mkdir(path)
        return []
    if how == "fifo-less-special":
        os.symlink("/dev/null", path)
        return []
    raise AssertionError(how)


TARGET_KINDS = ["new", "new", "new", "existing-long", "existing-0600", "existing-0444",
                "hardlink", "symlink", "dangling", "directory", "fifo-less-special"]


def watch(tag, directory, base, extras, ino_before=None):
    path = os.path.join(directory, base)
    if not (os.path.islink(path) and os.readlink(path) == "/dev/null"):
        obs(tag + ":state", file_state(path))
    for extra in extras:
        obs(tag + ":extra", file_state(extra))
    obs(tag + ":listing", dir_state(directory))
    if ino_before is not None:
        try:
            obs(tag + ":same-inode", os.stat(path).st_ino == ino_before)
        except OSError:
            obs(tag + ":same-inode", None)


def inode_of(path):
    try:
        return os.stat(path).st_ino
    except OSError:
        return None


BAD_NAMES = [
    ("none", None), ("float", 3.5), ("nul", "a\0b"), ("empty", ""),
    ("missing-dir", "no/such/dir/file.txt"), ("trailing-slash", "newname/"),
    ("file-as-dir", "plain.txt/x"), ("list", ["a"]), ("long", "n" * 300),
    ("bytes-nul", b"a\0b"), ("dot", "."), ("bad-fd", 10**6), ("neg-fd", -5),
    ("object", object()), ("fspath-int", FsPath(3)),
]


# --------------------------------------------------------------------------
# Section A : Settings.save / Settings.load / settings dispatcher
# --------------------------------------------------------------------------

def section_settings(seed):
    rng = random.Random(seed)
    directory = fresh_dir(f"settings_{seed}")
    with open("plain.txt", "w") as f:
        f.write("{}")

    # A1: round trips through every kind of name and target
    for i in range(150):
        tag = f"A1[{seed},{i}]"
        settings = random_settings(rng)
        base = rng.choice([f"s{i}.json", f"s {i}.json", f"sé{i}", f"s{i}.gz",
                           f".hidden{i}", f"s{i}.tmp", "x" * 240 + str(i)])
        how = rng.choice(TARGET_KINDS if len(base) < 200 else ["new", "existing-long", "directory"])
        extras = prepare_target(rng, directory, base, how)
        variants = name_variants(rng, base)
        kind, name = rng.choice(variants)
        old_umask = os.umask(rng.choice([0o022, 0o077, 0o002, 0o027]))
        ino = inode_of(base)
        fds = open_fd_count()
        before = settings_state(settings)
        try:
            writer = rng.choice(["method", "function"])
            if writer == "method":
                result = attempt(f"{tag}:save:{kind}:{how}", settings.save, name)
            else:
                result = attempt(f"{tag}:write:{kind}:{how}",
                                 hvsrpy.write_settings_object_to_file, settings, name)
        finally:
            os.umask(old_umask)
        obs(tag + ":result", result)
        obs(tag + ":fds", open_fd_count() - fds)
        obs(tag + ":unchanged", canon(before) == canon(settings_state(settings)))
        watch(tag, directory, base, extras, ino)

        # read back by a (possibly different) name, in several ways
        kind2, name2 = rng.choice(variants)
        target = rng.choice(SETTINGS_CLASSES)()
        fds = open_fd_count()
        attempt(f"{tag}:load:{kind2}", target.load, name2)
        obs(tag + ":loaded", settings_state(target))
        new = attempt(f"{tag}:dispatch:{kind2}", hvsrpy.read_settings_object_from_file, name2)
        obs(tag + ":dispatched", None if new is None else
            [type(new).__name__, settings_state(new)])
        if new is not None:
            obs(tag + ":attr_dict", new.attr_dict)
        obs(tag + ":fds2", open_fd_count() - fds)
        watch(tag + ":after-read", directory, base, extras, ino)
        for entry in [base] + [os.path.basename(e) for e in extras]:
            try:
                if os.path.isdir(entry) and not os.path.islink(entry):
                    os.rmdir(entry)
                else:
                    os.chmod(entry, 0o644) if not os.path.islink(entry) else None
                    os.unlink(entry)
            except OSError:
                pass

    # A2: values that can not be serialized -> partial files
    for i in range(80):
        tag = f"A2[{seed},{i}]"
        settings = random_settings(rng)
        victim = rng.choice(settings.attrs)
        mode = rng.randrange(5)
        if mode == 0:
            setattr(settings, victim, random_bad_value(rng))
        elif mode == 1:
            setattr(settings, victim, {"fine": 1, "bad": random_bad_value(rng), "after": 2})
        elif mode == 2:
            loop = [1, 2]
            loop.append(loop)
            setattr(settings, victim, loop)
        elif mode == 3:
            delattr(settings, victim)
        else:
            deep = current = []
            for _ in range(rng.choice([50, 400, 2000, 100000])):
                nxt = []
                current.append(nxt)
                current = nxt
            setattr(settings, victim, deep)
        base = f"bad{i}.json"
        how = rng.choice(["new", "existing-long", "symlink", "hardlink", "dangling"])
        extras = prepare_target(rng, directory, base, how)
        kind, name = rng.choice(name_variants(rng, base))
        ino = inode_of(base)
        fds = open_fd_count()
        attempt(f"{tag}:save:{kind}:{how}:{mode}", settings.save, name)
        obs(tag + ":fds", open_fd_count() - fds)
        watch(tag, directory, base, extras, ino)
        attempt(f"{tag}:dispatch", hvsrpy.read_settings_object_from_file, base)
        target = rng.choice(SETTINGS_CLASSES)()
        attempt(f"{tag}:load", target.load, base)
        obs(tag + ":loaded", settings_state(target))
        for entry in [base] + [os.path.basename(e) for e in extras]:
            try:
                os.unlink(entry)
            except OSError:
                pass

    # A3: bad names
    for label, name in BAD_NAMES:
        tag = f"A3[{seed},{label}]"
        settings = random_settings(rng)
        fds = open_fd_count()
        attempt(tag + ":save", settings.save, name)
        attempt(tag + ":write", hvsrpy.write_settings_object_to_file, settings, name)
        attempt(tag + ":load", settings.load, name)
        attempt(tag + ":dispatch", hvsrpy.read_settings_object_from_file, name)
        obs(tag + ":fds", open_fd_count() - fds)
        obs(tag + ":listing", dir_state(directory))
        obs(tag + ":plain", file_state("plain.txt"))
    attempt("A3:not-settings", hvsrpy.write_settings_object_to_file, object(), "nope.json")
    obs("A3:not-settings:listing", dir_state(directory))

    # A4: file descriptors as names
    for i in range(10):
        tag = f"A4[{seed},{i}]"
        settings = random_settings(rng)
        with open("fdfile.json", "w") as f:
            f.write("y" * rng.choice([0, 10, 5000]))
        fd = os.open("fdfile.json", os.O_RDWR)
        if rng.random() < 0.5:
            os.lseek(fd, 3, os.SEEK_SET)
        attempt(tag + ":save-fd", settings.save, fd)
        try:
            os.fstat(fd)
            obs(tag + ":fd-open-after-save", True)
            os.close(fd)
        except OSError:
            obs(tag + ":fd-open-after-save", False)
        obs(tag + ":state", file_state("fdfile.json"))
        settings.save("fdfile.json")
        fd = os.open("fdfile.json", os.O_RDONLY)
        target = rng.choice(SETTINGS_CLASSES)()
        attempt(tag + ":load-fd", target.load, fd)
        obs(tag + ":loaded", settings_state(target))
        try:
            os.fstat(fd)
            obs(tag + ":fd-open-after-load", True)
            os.close(fd)
        except OSError:
            obs(tag + ":fd-open-after-load", False)
        fd = os.open("fdfile.json", os.O_RDONLY)
        attempt(tag + ":dispatch-fd", hvsrpy.read_settings_object_from_file, fd)
        try:
            os.close(fd)
            obs(tag + ":fd-open-after-dispatch", True)
        except OSError:
            obs(tag + ":fd-open-after-dispatch", False)
        wide = np.int64(os.open("fdfile.json", os.O_RDONLY))
        attempt(tag + ":load-npint", target.load, wide)
        try:
            os.close(int(wide))
        except OSError:
            pass
    os.unlink("fdfile.json")

    # A5: hand-made files
    contents = [
        b"", b"{}", b"[]", b"null", b"3", b'"text"', b"{", b"{'a': 1}",
        b'{"preprocessing_method": "hvsr"}', b'{"preprocessing_method": "psd", "x": [1,2]}',
        b'{"preprocessing_method": "other"}', b'{"preprocessing_method": ["psd"]}',
        b'{"preprocessing_method": {"a": 1}}', b'{"preprocessing_method": null}',
        b'{"preprocessing_method": "bad", "processing_method": "psd"}',
        b'{"processing_method": "psd"}', b'{"processing_method": "azimuthal"}',
        b'{"processing_method": "diffuse_field"}', b'{"processing_method": "traditional"}',
        b'{"processing_method": "traditional", "method_to_combine_horizontals": "rotdpp"}',
        b'{"processing_method": "traditional", "method_to_combine_horizontals": "single_azimuth"}',
        b'{"processing_method": "traditional", "method_to_combine_horizontals": "directional_energy"}',
        b'{"processing_method": "traditional", "method_to_combine_horizontals": "geometric_mean"}',
        b'{"processing_method": "traditional", "method_to_combine_horizontals": ["rotdpp"]}',
        b'{"processing_method": "traditional", "method_to_combine_horizontals": null}',
        b'{"processing_method": "traditional", "method_to_combine_horizontals": 7}',
        b'{"processing_method": 1}', b'{"processing_method": true}',
        b'{"processing_method": []}', b'{"processing_method": "nope"}',
        b'{"something": "else"}',
        b'{"processing_method": "psd", "attr_dict": 1, "zzz": 2}',
        b'{"aaa": 1, "attr_dict": 1, "processing_method": "psd"}',
        b'{"processing_method": "psd", "attrs": ["a"], "a": 5}',
        b'{"processing_method": "psd", "a b": 1, "": 2, "__class__": 3}',
        b'{"processing_method": "psd", "save": 1, "load": 2}',
        b'{"processing_method": "psd", "dup": 1, "dup": 2}',
        b'\xef\xbb\xbf{"processing_method": "psd"}',
        b'{"processing_method": "psd",\r\n "x": 1}', b'{"processing_method": "psd",\r "x": 1,\r}',
        b'{"processing_method": "psd", "x": "\xff"}', b'{"processing_method": "psd", "x": "\xc3\xa9"}',
        b'{"processing_method": "psd", "x": "a\nb"}', b'{"processing_method": "psd", "x": "a\rb"}',
        b'{"processing_method": "psd", "x": NaN, "y": -Infinity}',
        b'{"processing_method": "psd", "x": 1e999, "y": 12345678901234567890123}',
        b'{"processing_method": "psd"} trailing', b'  \n {"processing_method": "psd"}\n\n',
        b'{"processing_method": "psd", "x": "' + b"z" * 20000 + b'\xff"}',
        b'{"processing_method": "psd", "x": "' + b"\xc3\xa9" * 6000 + b'"}',
        b'{"processing_method": "psd", "x": ' + b"[" * 3000 + b"]" * 3000 + b"}",
        b'\xff\xfe{\x00}\x00',
    ]
    for i, content in enumerate(contents):
        tag = f"A5[{seed},{i}]"
        with open("hand.json", "wb") as f:
            f.write(content)
        kind, name = rng.choice(name_variants(rng, "hand.json"))
        target = rng.choice(SETTINGS_CLASSES)()
        fds = open_fd_count()
        attempt(f"{tag}:load:{kind}", target.load, name)
        obs(tag + ":loaded", settings_state(target))
        try:
            obs(tag + ":attr_dict", target.attr_dict)
        except Exception as e:  # noqa
            obs(tag + ":attr_dict", e)
        new = attempt(f"{tag}:dispatch:{kind}", hvsrpy.read_settings_object_from_file, name)
        obs(tag + ":dispatched", None if new is None else
            [type(new).__name__, settings_state(new)])
        obs(tag + ":fds", open_fd_count() - fds)
        obs(tag + ":untouched", file_state("hand.json"))
    os.unlink("hand.json")

    # A6: sequences of saves to the same name, other descriptor holds a lock
    settings = random_settings(rng)
    holder = os.open("locked.json", os.O_RDWR | os.O_CREAT, 0o644)
    fcntl.flock(holder, fcntl.LOCK_EX)
    for i in range(12):
        tag = f"A6[{seed},{i}]"
        settings = random_settings(rng)
        attempt(tag + ":save", settings.save, "locked.json")
        obs(tag + ":state", file_state("locked.json"))
        probe = os.open("locked.json", os.O_RDONLY)
        try:
            fcntl.flock(probe, fcntl.LOCK_EX | fcntl.LOCK_NB)
            obs(tag + ":still-locked", False)
        except OSError:
            obs(tag + ":still-locked", True)
        os.close(probe)
        new = attempt(tag + ":dispatch", hvsrpy.read_settings_object_from_file, "locked.json")
        obs(tag + ":equal", None if new is None else bool(new == settings))
    os.close(holder)
    probe = os.open("locked.json", os.O_RDONLY)
    try:
        fcntl.flock(probe, fcntl.LOCK_EX | fcntl.LOCK_NB)
        obs("A6:lock-free-after", True)
    except OSError:
        obs("A6:lock-free-after", False)
    os.close(probe)
    os.unlink("locked.json")
    obs(f"A[{seed}]:final-listing", dir_state(directory))
    os.chdir(TMP)


# --------------------------------------------------------------------------
# Section B : SeismicRecording3C.save / load / _to_dict
# --------------------------------------------------------------------------

def section_recordings(seed):
    rng = random.Random(seed)
    nprng = np.random.default_rng(seed)
    directory = fresh_dir(f"recordings_{seed}")
    with open("plain.txt", "w") as f:
        f.write("{}")

    for i in range(140):
        tag = f"B1[{seed},{i}]"
        rec = random_recording(rng, nprng)
        data = rec._to_dict()
        obs(tag + ":to_dict", data)
        obs(tag + ":to_dict:keys", list(data.keys()))
        obs(tag + ":to_dict:meta-identity", data["meta"] is rec.meta)
        obs(tag + ":to_dict:types", [type(v).__name__ for v in data.values()])
        obs(tag + ":to_dict:fresh", rec._to_dict() is not data)

        bad = rng.random() < 0.25
        if bad:
            where = rng.randrange(3)
            if where == 0 and rng.random() < 0.3:
                deep = current = []
                for _ in range(rng.choice([300, 3000])):
                    nxt = []
                    current.append(nxt)
                    current = nxt
                rec.meta["zz deep"] = deep
            elif where == 0:
                rec.meta["zz bad"] = random_bad_value(rng)
            elif where == 1:
                rec.meta = {"bad first": random_bad_value(rng), **rec.meta}
            else:
                rec.degrees_from_north = random_bad_value(rng)
        if rng.random() < 0.05:
            del rec.vt
        base = rng.choice([f"r{i}.json", f"r {i}.json", f"ré{i}", f"r{i}.gz",
                           f".r{i}", "y" * 235 + str(i), "y" * 250 + str(i)])
        how = rng.choice(TARGET_KINDS if len(base) < 200 else ["new", "existing-long", "directory"])
        extras = prepare_target(rng, directory, base, how)
        variants = name_variants(rng, base)
        kind, name = rng.choice(variants)
        old_umask = os.umask(rng.choice([0o022, 0o077, 0o002, 0o027]))
        ino = inode_of(base)
        fds = open_fd_count()
        try:
            before = canon(recording_state(rec))
        except AttributeError:
            before = None
        try:
            result = attempt(f"{tag}:save:{kind}:{how}:{bad}", rec.save, name)
        finally:
            os.umask(old_umask)
        obs(tag + ":result", result)
        obs(tag + ":fds", open_fd_count() - fds)
        if before is not None:
            obs(tag + ":unchanged", before == canon(recording_state(rec)))
        watch(tag, directory, base, extras, ino)

        kind2, name2 = rng.choice(variants)
        fds = open_fd_count()
        new = attempt(f"{tag}:load:{kind2}", hvsrpy.SeismicRecording3C.load, name2)
        obs(tag + ":loaded", None if new is None else recording_state(new))
        if new is not None and before is not None:
            obs(tag + ":equal", bool(new == rec))
        obs(tag + ":fds2", open_fd_count() - fds)
        watch(tag + ":after-read", directory, base, extras, ino)
        # second save over the result of the first (now always existing)
        if rng.random() < 0.4:
            rec2 = random_recording(rng, nprng)
            ino = inode_of(base)
            attempt(f"{tag}:resave:{kind2}", rec2.save, name2)
            watch(tag + ":resave", directory, base, extras, ino)
        for entry in [base] + [os.path.basename(e) for e in extras]:
            try:
                if os.path.isdir(entry) and not os.path.islink(entry):
                    os.rmdir(entry)
                else:
                    os.unlink(entry)
            except OSError:
                pass

    # B2: bad names
    for label, name in BAD_NAMES:
        tag = f"B2[{seed},{label}]"
        rec = random_recording(rng, nprng)
        fds = open_fd_count()
        attempt(tag + ":save", rec.save, name)
        attempt(tag + ":load", hvsrpy.SeismicRecording3C.load, name)
        obs(tag + ":fds", open_fd_count() - fds)
        obs(tag + ":listing", dir_state(directory))
        obs(tag + ":plain", file_state("plain.txt"))

    # B3: file descriptors
    for i in range(8):
        tag = f"B3[{seed},{i}]"
        rec = random_recording(rng, nprng)
        with open("fdfile.json", "w") as f:
            f.write("y" * rng.choice([0, 10, 500000]))
        fd = os.open("fdfile.json", os.O_RDWR)
        attempt(tag + ":save-fd", rec.save, fd)
        try:
            os.close(fd)
            obs(tag + ":fd-open-after-save", True)
        except OSError:
            obs(tag + ":fd-open-after-save", False)
        obs(tag + ":state", file_state("fdfile.json"))
        rec.save("fdfile.json")
        fd = os.open("fdfile.json", os.O_RDONLY)
        new = attempt(tag + ":load-fd", hvsrpy.SeismicRecording3C.load, fd)
        obs(tag + ":loaded", None if new is None else recording_state(new))
        try:
            os.close(fd)
            obs(tag + ":fd-open-after-load", True)
        except OSError:
            obs(tag + ":fd-open-after-load", False)
    os.unlink("fdfile.json")

    # B4: hand-made files
    good = {"dt_in_seconds": 0.01, "ns_amplitude": [1, 2, 3], "ew_amplitude": [1.5, 2, 3],
            "vt_amplitude": [0, 0, 1e-3], "degrees_from_north": 370, "meta": {"a": [1, 2]}}
    contents = [b"", b"{}", b"[]", b"null", b"{", json.dumps(good).encode()]
    for key in good:
        partial = dict(good)
        del partial[key]
        contents.append(json.dumps(partial).encode())
    for key, value in [("ns_amplitude", [1, 2]), ("ns_amplitude", "abc"), ("dt_in_seconds", None),
                       ("meta", None), ("meta", [1]), ("degrees_from_north", "12"),
                       ("degrees_from_north", None), ("vt_amplitude", [[1, 2, 3]]),
                       ("ew_amplitude", [1, None, 3]), ("dt_in_seconds", -1)]:
        changed = dict(good)
        changed[key] = value
        contents.append(json.dumps(changed).encode())
    text = json.dumps(good)
    contents += [
        text.replace(", ", ",\r\n").encode(), text.replace(", ", ",\r").encode(),
        b"\xef\xbb\xbf" + text.encode(), text.encode("utf-16"), text.encode() + b"\xff",
        (" " * 9000 + text).encode(), (text[:-1] + ', "pad": "' + "é" * 5000 + '"}').encode(),
        (text[:-1] + ', "pad": "' + "p" * 9000 + '\xff"}').encode("latin-1"),
        text.replace("370", "NaN").encode(), text.replace("370", "1e400").encode(),
        text.encode() + b"\n\n", text.encode() + b" x",
    ]
    for i, content in enumerate(contents):
        tag = f"B4[{seed},{i}]"
        with open("hand.json", "wb") as f:
            f.write(content)
        kind, name = rng.choice(name_variants(rng, "hand.json"))
        fds = open_fd_count()
        new = attempt(f"{tag}:load:{kind}", hvsrpy.SeismicRecording3C.load, name)
        obs(tag + ":loaded", None if new is None else recording_state(new))
        obs(tag + ":fds", open_fd_count() - fds)
        obs(tag + ":untouched", file_state("hand.json"))
    os.unlink("hand.json")
    obs(f"B[{seed}]:final-listing", dir_state(directory))
    os.chdir(TMP)


# --------------------------------------------------------------------------
# Section C : HVSR result writer / reader
# --------------------------------------------------------------------------

class Recorder:
    """File handle look-alike that remembers what was written."""

    def __init__(self, binary):
        self.binary = binary
        self.parts = []

    def write(self, value):
        if self.binary and not isinstance(value, bytes):
            raise TypeError("bytes required")
        self.parts.append(value)
        return len(value)


def section_hvsr(seed):
    rng = random.Random(seed)
    nprng = np.random.default_rng(seed)
    directory = fresh_dir(f"hvsr_{seed}")
    with open("plain.txt", "w") as f:
        f.write("{}")

    for i in range(170):
        tag = f"C1[{seed},{i}]"
        hvsr = random_hvsr(rng, nprng)
        base = rng.choice([f"h{i}.csv", f"h {i}.csv", f"hé{i}.hv", f"h{i}", f".h{i}",
                           f"h{i}.gzip", f"gz", f"h{i}.GZ", "w" * 240 + str(i)] * 3 +
                          [f"h{i}.csv.gz", f"h{i}.bz2", f"h{i}.xz", f"h{i}.lzma",
                           f"h{i}:30.csv", f"[h{i}].csv", f"h{i}\t.csv", f"h{i}?q#f.csv"])
        how = rng.choice(TARGET_KINDS if len(base) < 200 else ["new", "existing-long", "directory"])
        extras = prepare_target(rng, directory, base, how)
        variants = name_variants(rng, base)
        kind, name = rng.choice(variants)
        dist_mc = rng.choice(["lognormal"] * 6 + ["normal"] * 5 + ["bogus"])
        dist_fn = rng.choice(["lognormal", "normal", "whatever"])
        old_umask = os.umask(rng.choice([0o022, 0o077, 0o002, 0o027]))
        ino = inode_of(base)
        fds = open_fd_count()
        before = canon(hvsr_state(hvsr))
        try:
            if rng.random() < 0.3:
                result = attempt(f"{tag}:write-default:{kind}:{how}",
                                 hvsrpy.write_hvsr_object_to_file, hvsr, name)
            else:
                result = attempt(f"{tag}:write:{kind}:{how}:{dist_mc}",
                                 hvsrpy.write_hvsr_object_to_file, hvsr, name, dist_mc, dist_fn)
        finally:
            os.umask(old_umask)
        obs(tag + ":result", result)
        obs(tag + ":fds", open_fd_count() - fds)
        obs(tag + ":unchanged", before == canon(hvsr_state(hvsr)))
        compressed = os.path.splitext(base)[1] in (".gz", ".bz2", ".xz", ".lzma")
        if compressed and os.path.isfile(base):
            # compressed containers hold time stamps: compare the payload
            import bz2
            import lzma
            opener = {".gz": gzip.open, ".bz2": bz2.open, ".xz": lzma.open,
                      ".lzma": lzma.open}[os.path.splitext(base)[1]]
            try:
                with opener(base, "rb") as f:
                    obs(tag + ":payload", f.read())
            except Exception as e:  # noqa
                obs(tag + ":payload", e)
            info = os.stat(base)
            obs(tag + ":mode", [stat.S_IMODE(info.st_mode), info.st_nlink])
            obs(tag + ":listing", dir_state(directory))
            for extra in extras:
                obs(tag + ":extra-exists", os.path.lexists(extra))
        else:
            watch(tag, directory, base, extras, ino)

        kind2, name2 = rng.choice(variants)
        fds = open_fd_count()
        new = attempt(f"{tag}:read:{kind2}", hvsrpy.read_hvsr_object_from_file, name2)
        obs(tag + ":read-state", hvsr_state(new))
        if new is not None:
            try:
                obs(tag + ":equal", [bool(new == hvsr), bool(hvsr.is_similar(new))])
                obs(tag + ":mean", new.mean_curve())
                obs(tag + ":std", new.std_curve() if not isinstance(new, hvsrpy.HvsrDiffuseField) else None)
                if not isinstance(new, hvsrpy.HvsrDiffuseField):
                    obs(tag + ":fn", [new.mean_fn_frequency(), new.std_fn_frequency()])
            except Exception as e:  # noqa
                obs(tag + ":stats", e)
            # write what was read: must reproduce the file
            again = attempt(f"{tag}:rewrite", hvsrpy.write_hvsr_object_to_file, new, "again.csv")
            obs(tag + ":again", file_state("again.csv"))
            try:
                os.unlink("again.csv")
            except OSError:
                pass
        obs(tag + ":fds2", open_fd_count() - fds)
        if not compressed:
            watch(tag + ":after-read", directory, base, extras, ino)
        for entry in [base] + [os.path.basename(e) for e in extras]:
            try:
                if os.path.isdir(entry) and not os.path.islink(entry):
                    os.rmdir(entry)
                else:
                    os.unlink(entry)
            except OSError:
                pass

    # C0: plain round trips, several objects through the same few names
    for i in range(120):
        tag = f"C0[{seed},{i}]"
        for _ in range(20):
            hvsr = random_hvsr(rng, nprng)
            try:
                hvsr.mean_curve()
                if not isinstance(hvsr, hvsrpy.HvsrDiffuseField):
                    hvsr.std_curve()
                break
            except Exception:
                continue
        hvsr.meta["processing_method"] = {hvsrpy.HvsrTraditional: "traditional",
                                          hvsrpy.HvsrAzimuthal: "azimuthal",
                                          hvsrpy.HvsrDiffuseField: "diffuse_field"}[type(hvsr)]
        base = f"round{i % 3}.csv"
        kind, name = rng.choice(name_variants(rng, base)[:4] + name_variants(rng, base)[6:7])
        attempt(f"{tag}:write:{kind}", hvsrpy.write_hvsr_object_to_file, hvsr, name,
                rng.choice(["lognormal", "normal"]), rng.choice(["lognormal", "normal"]))
        obs(tag + ":state", file_state(base))
        new = attempt(f"{tag}:read:{kind}", hvsrpy.read_hvsr_object_from_file, name)
        obs(tag + ":read-state", hvsr_state(new))
        if new is not None:
            obs(tag + ":equal", bool(new == hvsr))
            obs(tag + ":meta-equal", new.meta == hvsr.meta)
    for i in range(3):
        os.unlink(f"round{i}.csv")

    # C2: handles, bad names, bad objects
    for i in range(25):
        tag = f"C2[{seed},{i}]"
        hvsr = random_hvsr(rng, nprng)
        sio = io.StringIO()
        attempt(tag + ":stringio", hvsrpy.write_hvsr_object_to_file, hvsr, sio)
        obs(tag + ":stringio:value", sio.getvalue())
        bio = io.BytesIO()
        attempt(tag + ":bytesio", hvsrpy.write_hvsr_object_to_file, hvsr, bio)
        obs(tag + ":bytesio:value", bio.getvalue())
        for binary in (False, True):
            recorder = Recorder(binary)
            attempt(f"{tag}:recorder{binary}", hvsrpy.write_hvsr_object_to_file, hvsr, recorder)
            obs(f"{tag}:recorder{binary}:parts", recorder.parts)
        with open("handle.csv", "w") as f:
            attempt(tag + ":textfile", hvsrpy.write_hvsr_object_to_file, hvsr, f)
            obs(tag + ":textfile:closed", f.closed)
        obs(tag + ":textfile:state", file_state("handle.csv"))
        with open("handle.csv", "wb") as f:
            attempt(tag + ":binfile", hvsrpy.write_hvsr_object_to_file, hvsr, f)
        obs(tag + ":binfile:state", file_state("handle.csv"))
        sio.seek(0)
        attempt(tag + ":read-stringio", hvsrpy.read_hvsr_object_from_file, sio)
        with open("handle.csv") as f:
            attempt(tag + ":read-handle", hvsrpy.read_hvsr_object_from_file, f)
        fd = os.open("handle.csv", os.O_RDONLY)
        attempt(tag + ":read-fd", hvsrpy.read_hvsr_object_from_file, fd)
        try:
            os.close(fd)
            obs(tag + ":fd-open-after-read", True)
        except OSError:
            obs(tag + ":fd-open-after-read", False)
        fd = os.open("handle.csv", os.O_RDWR)
        attempt(tag + ":write-fd", hvsrpy.write_hvsr_object_to_file, hvsr, fd)
        try:
            os.close(fd)
            obs(tag + ":fd-open-after-write", True)
        except OSError:
            obs(tag + ":fd-open-after-write", False)
        os.unlink("handle.csv")
    for label, name in BAD_NAMES + [("url", "http://example.invalid/x.csv"),
                                     ("scheme", "file://x.csv")]:
        tag = f"C3[{seed},{label}]"
        hvsr = random_hvsr(rng, nprng)
        fds = open_fd_count()
        attempt(tag + ":write", hvsrpy.write_hvsr_object_to_file, hvsr, name)
        attempt(tag + ":read", hvsrpy.read_hvsr_object_from_file, name)
        obs(tag + ":fds", open_fd_count() - fds)
        obs(tag + ":listing", dir_state(directory))
        obs(tag + ":plain", file_state("plain.txt"))
    os.makedirs("http:/example.invalid", exist_ok=True)
    attempt("C3:url-dir:write", hvsrpy.write_hvsr_object_to_file,
            random_traditional(rng, nprng), "http://example.invalid/x.csv")
    obs("C3:url-dir:listing", sorted(os.listdir("http:/example.invalid")))
    shutil.rmtree("http:")

    class Duck:
        meta = {"processing_method": "traditional"}

    class NoMeta:
        pass

    for label, thing in [("duck", Duck()), ("nometa", NoMeta()), ("none", None),
                         ("curve", hvsrpy.HvsrCurve([1, 2, 3], [1, 2, 1]))]:
        attempt(f"C4[{seed},{label}]", hvsrpy.write_hvsr_object_to_file, thing, "never.csv")
        obs(f"C4[{seed},{label}]:listing", dir_state(directory))

    # C5: hand-made / doctored files
    for i in range(90):
        tag = f"C5[{seed},{i}]"
        hvsr = random_hvsr(rng, nprng)
        attempt(tag + ":base", hvsrpy.write_hvsr_object_to_file, hvsr, "base.csv")
        if not os.path.exists("base.csv"):
            continue
        with open("base.csv", "rb") as f:
            original = f.read()
        lines = original.decode().split("\n")
        n_header = sum(1 for line in lines if line.startswith("#"))
        data = lines[n_header:-1]
        header = lines[:n_header]
        trick = rng.randrange(34)
        content = None
        if trick == 0:
            content = original.replace(b"\n", b"\r\n")
        elif trick == 1:
            content = original.replace(b"\n", b"\r")
        elif trick == 2:
            content = original[:-1]  # no final newline
        elif trick == 3:
            content = original + b"\n\n"
        elif trick == 4:
            content = original + b"# trailing comment\n"
        elif trick == 5:
            content = "\n".join(header + [line.replace(",", " , ") for line in data] + [""]).encode()
        elif trick == 6:
            content = "\n".join(header + [line.replace("e+00", "E+00") for line in data] + [""]).encode()
        elif trick == 7:
            content = "\n".join(header + [",".join(repr(float(x)) for x in line.split(","))
                                          for line in data] + [""]).encode()
        elif trick == 8:
            content = "\n".join(header + data[:1] + [""]).encode()  # single row
        elif trick == 9:
            content = "\n".join(header + [""]).encode()  # no rows
        elif trick == 10:
            content = "\n".join(header + [line.split(",")[0] for line in data] + [""]).encode()
        elif trick == 11:
            content = "\n".join(header + data[:-1] + [data[-1] + ",1.000000000000000000e+00", ""]).encode()
        elif trick == 12:
            content = "\n".join(header + data[:1] + ["# mid comment"] + data[1:] + [""]).encode()
        elif trick == 13:
            content = "\n".join(header + data[:1] + [""] + data[1:] + [""]).encode()
        elif trick == 14:
            content = "\n".join(data + [""]).encode()  # no header at all
        elif trick == 15:
            content = "\n".join(header[-1:] + data + [""]).encode()  # only column names
        elif trick == 16:
            content = "\n".join(["# {"] + header[1:] + data + [""]).encode().replace(b'"processing_method"', b'"x"')
        elif trick == 17:
            content = original.replace(b'"traditional"', b'"mystery"').replace(
                b'"azimuthal"', b'"mystery"').replace(b'"diffuse_field"', b'"mystery"')
        elif trick == 18:
            content = "\n".join(header + [line.replace("e+", "e+0", 1) for line in data] + [""]).encode()
        elif trick == 19:
            content = "\n".join(header + [line + " # c" for line in data] + [""]).encode()
        elif trick == 20:
            content = "\n".join(header + [line.replace("1", "1_", 1) for line in data] + [""]).encode()
        elif trick == 21:
            content = "\n".join(header + ["nan" + line[line.index(","):] for line in data] + [""]).encode()
        elif trick == 22:
            content = "\n".join(header + [line + ",inf,-inf,nan" for line in data] + [""]).encode()
        elif trick == 23:
            content = "\n".join(header + [line + ",-nan" for line in data] + [""]).encode()
        elif trick == 24:
            content = "\n".join(header + ["-" + line for line in data] + [""]).encode()
        elif trick == 25:
            content = "\n".join(header + [line + ",+1.000000000000000000e+00" for line in data] + [""]).encode()
        elif trick == 26:
            content = "\n".join(header + [line + "," for line in data] + [""]).encode()
        elif trick == 27:
            content = original + b"\xff\n"
        elif trick == 28:
            content = "\n".join(header[:-1] + ["#" + header[-1][2:]] + data + [""]).encode()
        elif trick == 29:
            content = "\n".join(header + [line.replace(",", ";") for line in data] + [""]).encode()
        elif trick == 30:
            content = "\n".join(header + ["١.000000000000000000e+00" + line[line.index(","):]
                                          for line in data] + [""]).encode()
        elif trick == 31:
            content = "\n".join(header + [line + "\x0c" for line in data] + [""]).encode()
        elif trick == 32:
            content = ("\n".join(header + data + [""])).replace('"find_peaks_kwargs"', '"fpk"').encode()
        elif trick == 33:
            content = b"\xef\xbb\xbf" + original
        name_base = rng.choice(["doctored.csv", "doctored.csv", "doctored.gz", "doctored"])
        with open(name_base, "wb") as f:
            f.write(content)
        kind, name = rng.choice(name_variants(rng, name_base))
        fds = open_fd_count()
        new = attempt(f"{tag}:read:{trick}:{kind}:{name_base}", hvsrpy.read_hvsr_object_from_file, name)
        obs(tag + ":state", hvsr_state(new))
        obs(tag + ":fds", open_fd_count() - fds)
        obs(tag + ":untouched", file_state(name_base) == ("file", 0o644, 1, content))
        os.unlink(name_base)
        # genuinely compressed copy under a compressed name
        if rng.random() < 0.2:
            with gzip.open("real.csv.gz", "wb") as f:
                f.write(original)
            attempt(tag + ":read-real-gz", hvsrpy.read_hvsr_object_from_file, "real.csv.gz")
            os.unlink("real.csv.gz")
        # same name with and without a compressed sibling
        if rng.random() < 0.2:
            with gzip.open("base.csv.gz", "wb") as f:
                f.write(b"# {}\n# a,b\n1,2\n3,4\n")
            new = attempt(tag + ":read-with-gz-sibling", hvsrpy.read_hvsr_object_from_file, "base.csv")
            obs(tag + ":sibling-state", hvsr_state(new))
            os.unlink("base.csv.gz")
        os.unlink("base.csv")

    # C6: reading through links / special entries
    hvsr = hvsrpy.HvsrTraditional(np.geomspace(0.2, 20, 32),
                                  random_curves(random.Random(seed), nprng, 4, np.geomspace(0.2, 20, 32)) + 1e-3)
    hvsr.valid_window_boolean_mask[:] = True
    hvsr.valid_peak_boolean_mask[:] = True
    hvsrpy.write_hvsr_object_to_file(hvsr, "real.csv")
    os.symlink("real.csv", "link.csv")
    os.link("real.csv", "hard.csv")
    os.symlink("/dev/null", "null.csv")
    os.mkdir("adir.csv")
    for name in ["link.csv", "hard.csv", "null.csv", "adir.csv", "missing.csv"]:
        new = attempt(f"C6[{seed}]:{name}", hvsrpy.read_hvsr_object_from_file, name)
        obs(f"C6[{seed}]:{name}:state", hvsr_state(new))
    attempt(f"C6[{seed}]:write-null", hvsrpy.write_hvsr_object_to_file, hvsr, "null.csv")
    obs(f"C6[{seed}]:null-still-link", os.readlink("null.csv"))
    attempt(f"C6[{seed}]:write-devnull", hvsrpy.write_hvsr_object_to_file, hvsr, "/dev/null")
    obs(f"C6[{seed}]:devnull-is-char", stat.S_ISCHR(os.stat("/dev/null").st_mode))
    for name in ["link.csv", "hard.csv", "null.csv", "real.csv"]:
        os.unlink(name)
    os.rmdir("adir.csv")
    obs(f"C[{seed}]:final-listing", dir_state(directory))
    os.chdir(TMP)


def section_lost_cwd(seed):
    """Working directory removed underneath the process."""
    rng = random.Random(seed)
    nprng = np.random.default_rng(seed)
    keep = fresh_dir(f"lost_{seed}_keep")
    gone = fresh_dir(f"lost_{seed}_gone")
    os.rmdir(gone)
    try:
        for i in range(6):
            tag = f"D[{seed},{i}]"
            hvsr = hvsrpy.HvsrTraditional(np.geomspace(0.2, 20, 8),
                                          random_curves(rng, nprng, 3, np.geomspace(0.2, 20, 8)) + 1e-3,
                                          meta={"processing_method": "traditional"})
            settings = random_settings(rng)
            rec = random_recording(rng, nprng)
            for where, name in [("abs", os.path.join(keep, f"f{i}")), ("rel", f"f{i}")]:
                attempt(f"{tag}:{where}:hvsr-write", hvsrpy.write_hvsr_object_to_file, hvsr, name + ".csv")
                new = attempt(f"{tag}:{where}:hvsr-read", hvsrpy.read_hvsr_object_from_file, name + ".csv")
                obs(f"{tag}:{where}:hvsr-state", hvsr_state(new))
                attempt(f"{tag}:{where}:settings-save", settings.save, name + ".json")
                attempt(f"{tag}:{where}:settings-read", hvsrpy.read_settings_object_from_file, name + ".json")
                attempt(f"{tag}:{where}:rec-save", rec.save, name + ".rec")
                attempt(f"{tag}:{where}:rec-load", hvsrpy.SeismicRecording3C.load, name + ".rec")
            for entry in sorted(os.listdir(keep)):
                obs(f"{tag}:kept:{entry}", file_state(os.path.join(keep, entry)))
    finally:
        os.chdir(TMP)


# --------------------------------------------------------------------------
# Section E : upstream fixes (numpy scalars in persisted objects, default
#             processing_method, exponent-notation azimuths)
# --------------------------------------------------------------------------

def _nest(depth, bottom):
    deep = current = []
    for _ in range(depth):
        nxt = []
        current.append(nxt)
        current = nxt
    current.append(bottom)
    return deep


def _itf():
    from hvsrpy.instrument_response import InstrumentTransferFunction
    return InstrumentTransferFunction(poles=[-1 + 1j, -1 - 1j], zeros=[0, 0],
                                      instrument_sensitivity=2.5,
                                      normalization_factor=1.5)


E_TARGETS = ["new", "existing-long", "existing-0600", "symlink", "hardlink", "dangling"]

NUMPY_BOUNDS = [
    lambda: (np.int64(1), np.float32(10.5)),
    lambda: (np.float32(0.75), None),
    lambda: (None, np.int64(12)),
    lambda: (np.int32(1), np.float64(9.25)),
    lambda: (np.float16(0.5), np.uint8(15)),
    lambda: tuple(np.array([0.6, 14.0])),
    lambda: list(np.array([1, 11], dtype=np.int64)),
    lambda: (np.float32(1.1), np.float32(8.3)),
]


def _e_one_file(tag, rng, directory, base, how, writer, reader, state_of, text_names=False):
    """Write through ``writer(name)``; observe; read through ``reader(name)``."""
    extras = prepare_target(rng, directory, base, how)
    variants = name_variants(rng, base)
    if text_names:
        # bytes names are refused by the table writer/reader (section C).
        variants = [v for v in variants if v[0] not in ("bytes", "fspath-bytes")]
    kind, name = rng.choice(variants)
    ino = inode_of(base)
    fds = open_fd_count()
    attempt(f"{tag}:write:{kind}:{how}", writer, name)
    obs(tag + ":fds", open_fd_count() - fds)
    watch(tag, directory, base, extras, ino)
    kind2, name2 = rng.choice(variants)
    new = attempt(f"{tag}:read:{kind2}", reader, name2)
    obs(tag + ":read-state", None if new is None else state_of(new))
    for entry in [base] + [os.path.basename(e) for e in extras]:
        try:
            if not os.path.islink(entry):
                os.chmod(entry, 0o644)
            os.unlink(entry)
        except OSError:
            pass
    obs(tag + ":clean", dir_state(directory))
    return new


def section_upstream(seed):
    rng = random.Random(seed)
    nprng = np.random.default_rng(seed)
    directory = fresh_dir(f"upstream_{seed}")

    # E1: search ranges (and other meta) holding numpy scalars.
    for i in range(48):
        tag = f"E1[{seed},{i}]"
        frequency = np.geomspace(0.2, 20, rng.choice([16, 40, 64]))
        bounds = NUMPY_BOUNDS[i % len(NUMPY_BOUNDS)]()
        kwargs = rng.choice([None, {"prominence": np.float32(0.05)},
                             {"distance": np.int64(2)}, {"prominence": 0.1}])
        which = i % 3
        try:
            if which == 0:
                hvsr = hvsrpy.HvsrTraditional(frequency, random_curves(rng, nprng, 4, frequency),
                                              meta={"site": "e1", "n": np.int64(i)})
                hvsr.update_peaks_bounded(search_range_in_hz=bounds, find_peaks_kwargs=kwargs)
            elif which == 1:
                hvsrs = [hvsrpy.HvsrTraditional(frequency, random_curves(rng, nprng, 3, frequency), meta={})
                         for _ in range(3)]
                hvsr = hvsrpy.HvsrAzimuthal(hvsrs, [0., 60., 120.],
                                            meta={"arr": np.arange(3), "f": np.float32(0.25)})
                hvsr.update_peaks_bounded(search_range_in_hz=bounds, find_peaks_kwargs=kwargs)
            else:
                hvsr = hvsrpy.HvsrDiffuseField(frequency, random_curves(rng, nprng, 1, frequency)[0],
                                               meta={"nested": {"a": [np.float64(1.5), (np.int8(2),)]}})
                hvsr.update_peaks_bounded(search_range_in_hz=bounds, find_peaks_kwargs=kwargs)
        except Exception as e:  # noqa
            obs(tag + ":build-raised", e)
            continue
        obs(tag + ":built", hvsr_state(hvsr))
        if rng.random() < 0.5:
            hvsr.meta["processing_method"] = ["traditional", "azimuthal", "diffuse_field"][which]
        before = canon(hvsr_state(hvsr))
        _e_one_file(tag, rng, directory, f"e1_{i}.csv", rng.choice(E_TARGETS),
                    lambda name: hvsrpy.write_hvsr_object_to_file(hvsr, name),
                    hvsrpy.read_hvsr_object_from_file, hvsr_state,
                    text_names=i % 8 != 7)
        obs(tag + ":unchanged", before == canon(hvsr_state(hvsr)))

    # E2: results built directly from arrays, no "processing_method" in meta.
    for i in range(30):
        tag = f"E2[{seed},{i}]"
        frequency = random_frequency(rng)
        which = i % 3
        meta = [None, {}, {"site": "e2"}, {"processing_method": "psd"},
                {"processing_method": None}][(i // 3) % 5]
        kw = {} if meta is None else {"meta": meta}
        if which == 0:
            hvsr = hvsrpy.HvsrTraditional(frequency, random_curves(rng, nprng, rng.choice([1, 3, 5]), frequency), **kw)
        elif which == 1:
            hvsrs = [hvsrpy.HvsrTraditional(frequency, random_curves(rng, nprng, 2, frequency))
                     for _ in range(3)]
            hvsr = hvsrpy.HvsrAzimuthal(hvsrs, [1e-07, 5e-06, 2.5e+1] if i % 2 else [0, 45., 1.5e+2], **kw)
        else:
            hvsr = hvsrpy.HvsrDiffuseField(frequency, random_curves(rng, nprng, 1, frequency)[0], **kw)
        before = canon(hvsr_state(hvsr))
        new = _e_one_file(tag, rng, directory, f"e2_{i}.csv", rng.choice(E_TARGETS),
                          lambda name: hvsrpy.write_hvsr_object_to_file(hvsr, name),
                          hvsrpy.read_hvsr_object_from_file, hvsr_state,
                    text_names=i % 8 != 7)
        obs(tag + ":unchanged", before == canon(hvsr_state(hvsr)))
        obs(tag + ":type", type(new).__name__)

    # E3: recordings oriented / trimmed with numpy scalars.
    for i in range(40):
        tag = f"E3[{seed},{i}]"
        n, dt = rng.choice([(1000, 0.01), (700, 0.0125), (64, 0.125)])
        amp = nprng.standard_normal((3, n))
        ns, ew, vt = [hvsrpy.TimeSeries(a, dt) for a in amp]
        meta = rng.choice([None, {"k": np.int64(4)}, {"list": [np.float32(0.5), np.arange(2)]},
                           {"a": {"b": (np.bool_(True), np.float64(2.5))}}])
        rec = hvsrpy.SeismicRecording3C(ns, ew, vt,
                                        degrees_from_north=rng.choice([0., np.float32(12.5), np.int64(15), 10]),
                                        meta=meta)
        steps = [("orient", lambda: rec.orient_sensor_to(np.int64(30))),
                 ("trim", lambda: rec.trim(np.int64(2), np.int64(5))),
                 ("orient32", lambda: rec.orient_sensor_to(np.float32(45.5))),
                 ("trim32", lambda: rec.trim(np.float32(1.0), np.float64(6.0)))]
        order = [0, 1] if i % 4 == 0 else rng.sample(range(4), rng.randrange(1, 4))
        for j in order:
            label, step = steps[j]
            attempt(f"{tag}:{label}", step)
        obs(tag + ":state", recording_state(rec))
        obs(tag + ":to_dict", rec._to_dict())
        before = canon(recording_state(rec))
        old_umask = os.umask(rng.choice([0o022, 0o077, 0o027]))
        try:
            new = _e_one_file(tag, rng, directory, f"e3_{i}.json", rng.choice(E_TARGETS),
                              rec.save, hvsrpy.SeismicRecording3C.load, recording_state)
        finally:
            os.umask(old_umask)
        obs(tag + ":unchanged", before == canon(recording_state(rec)))
        if new is not None:
            obs(tag + ":equal", attempt(tag + ":eq", lambda: bool(new == rec)))

    # E4: settings whose list attributes hold numpy scalars.
    for i in range(40):
        tag = f"E4[{seed},{i}]"
        corners = [[np.float32(1.5), None], (np.float32(1.5), None), [None, np.int64(20)],
                   [np.float64(0.1), np.float32(30)], list(np.array([0.2, 25.0])),
                   np.array([0.3, 22.0])][i % 6]
        fft = {"n": np.int64(2048)}
        if i % 2:
            settings = hvsrpy.HvsrPreProcessingSettings(filter_corner_frequencies_in_hz=corners,
                                                        orient_to_degrees_from_north=np.int64(30),
                                                        window_length_in_seconds=np.float32(60))
        else:
            settings = hvsrpy.PsdPreProcessingSettings(filter_corner_frequencies_in_hz=corners,
                                                       window_type_and_width=["tukey", np.float64(0.1)],
                                                       fft_settings=fft)
        # constructors keep copies.
        fft["n"] = "mutated"
        if isinstance(corners, list):
            corners[0] = "mutated"
        obs(tag + ":state", settings_state(settings))
        obs(tag + ":attr_dict", settings.attr_dict)
        writer = settings.save if i % 3 else (lambda name: hvsrpy.write_settings_object_to_file(settings, name))
        if i % 4 < 2:
            reader = hvsrpy.read_settings_object_from_file
        else:
            def reader(name, cls=type(settings)):
                target = cls()
                target.load(name)
                return target
        _e_one_file(tag, rng, directory, f"e4_{i}.json", rng.choice(E_TARGETS), writer, reader,
                    lambda new: [type(new).__name__, settings_state(new), new.attr_dict])
    for i, cls in enumerate(SETTINGS_CLASSES):
        tag = f"E4b[{seed},{i}]"
        settings = cls()
        for name in list(settings.attrs):
            value = getattr(settings, name)
            if isinstance(value, (list, tuple)) and not isinstance(value, str):
                setattr(settings, name, [np.float32(v) if isinstance(v, float) else
                                         (np.int64(v) if isinstance(v, int) and not isinstance(v, bool) else v)
                                         for v in value])
            elif isinstance(value, dict):
                value["extra"] = [np.int16(3), {"deep": (np.float32(0.25), np.arange(2.))}]
        obs(tag + ":attr_dict", settings.attr_dict)
        _e_one_file(tag, rng, directory, f"e4b_{i}.json", rng.choice(E_TARGETS), settings.save,
                    hvsrpy.read_settings_object_from_file,
                    lambda new: [type(new).__name__, settings_state(new)])

    # E5: objects that can not be serialized, after numpy values that can.
    bad_values = [
        ("set", lambda: {1, 2}),
        ("itf", _itf),
        ("unserializable", Unserializable),
        ("complex", lambda: np.complex128(1 + 2j)),
        ("complex-array", lambda: np.array([1j, 2])),
        ("late-set", lambda: [np.int64(1), (np.float32(2.5), [np.arange(3), {3}]), "never"]),
        ("dict-set", lambda: {"ok": np.float32(0.5), "bad": {4}, "after": 1}),
        ("object-array", lambda: np.array([1, Unserializable()], dtype=object)),
        ("numpy-key", lambda: {np.int64(3): 1}),
        ("bytes_", lambda: np.bytes_(b"abc")),
        ("datetime64", lambda: np.datetime64("2020-01-01")),
        ("deep-numpy", lambda: _nest(300, np.float32(1.5))),
        ("deep-set", lambda: _nest(300, {1})),
        ("very-deep-numpy", lambda: _nest(100000, np.int64(1))),
        ("mid-deep-numpy", lambda: _nest(2000, np.int64(1))),
        ("loop", lambda: (lambda l: (l.append([np.int64(1), l]), l)[1])([np.float32(1)])),
    ]
    for i, (label, make) in enumerate(bad_values):
        for how in ("new", "existing-long", "symlink", "dangling"):
            # settings
            tag = f"E5s[{seed},{label},{how}]"
            settings = hvsrpy.PsdPreProcessingSettings(
                filter_corner_frequencies_in_hz=[np.float32(1.5), None],
                instrument_transfer_function=make() if label in ("itf", "set") else None)
            if label not in ("itf", "set"):
                settings.differentiate = make()
            base = f"e5s_{i}.json"
            extras = prepare_target(rng, directory, base, how)
            kind, name = rng.choice(name_variants(rng, base))
            ino = inode_of(base)
            fds = open_fd_count()
            attempt(f"{tag}:save:{kind}", settings.save, name)
            obs(tag + ":fds", open_fd_count() - fds)
            watch(tag, directory, base, extras, ino)
            attempt(f"{tag}:dispatch", hvsrpy.read_settings_object_from_file, base)
            for entry in [base] + [os.path.basename(e) for e in extras]:
                try:
                    os.unlink(entry)
                except OSError:
                    pass

            # recordings
            tag = f"E5r[{seed},{label},{how}]"
            amp = nprng.standard_normal((3, 40))
            ns, ew, vt = [hvsrpy.TimeSeries(a, 0.25) for a in amp]
            rec = hvsrpy.SeismicRecording3C(ns, ew, vt, degrees_from_north=np.int64(10),
                                            meta={"fine": np.float32(0.5)})
            rec.orient_sensor_to(np.int64(30))
            rec.trim(np.int64(2), np.int64(5))
            where = rng.randrange(3)
            if where == 0:
                rec.meta["zz bad"] = make()
            elif where == 1:
                rec.meta = {"bad first": make(), **rec.meta}
            else:
                rec.degrees_from_north = make()
            base = f"e5r_{i}.json"
            extras = prepare_target(rng, directory, base, how)
            kind, name = rng.choice(name_variants(rng, base))
            ino = inode_of(base)
            fds = open_fd_count()
            attempt(f"{tag}:save:{kind}:{where}", rec.save, name)
            obs(tag + ":fds", open_fd_count() - fds)
            watch(tag, directory, base, extras, ino)
            attempt(f"{tag}:load", hvsrpy.SeismicRecording3C.load, base)
            for entry in [base] + [os.path.basename(e) for e in extras]:
                try:
                    os.unlink(entry)
                except OSError:
                    pass

        # hvsr results
        for how in ("new", "existing-long"):
            tag = f"E5h[{seed},{label},{how}]"
            frequency = np.geomspace(0.2, 20, 16)
            hvsr = hvsrpy.HvsrTraditional(frequency, random_curves(rng, nprng, 3, frequency),
                                          meta={"fine": np.float32(0.5), "bad": make()})
            try:
                hvsr.update_peaks_bounded(search_range_in_hz=(np.int64(1), np.float32(10.5)))
            except Exception as e:  # noqa
                obs(tag + ":update-raised", e)
            base = f"e5h_{i}.csv"
            extras = prepare_target(rng, directory, base, how)
            attempt(f"{tag}:write", hvsrpy.write_hvsr_object_to_file, hvsr, base)
            watch(tag, directory, base, extras)
            attempt(f"{tag}:read", hvsrpy.read_hvsr_object_from_file, base)
            try:
                os.unlink(base)
            except OSError:
                pass

    # E6: the conversion hooks themselves.
    hooks = [("object_io", getattr(object_io, "_numpy_to_builtin", None)),
             ("recording", getattr(hvsrpy.SeismicRecording3C, "_numpy_to_builtin", None))]
    for label, hook in hooks:
        obs(f"E6[{seed},{label}]:present", hook is not None)
        if hook is None:
            continue
        for j, value in enumerate([np.int64(3), np.float32(1.5), np.arange(3), np.bool_(False),
                                   np.array(2.5), {1}, Unserializable(), 1 + 2j, None, "s"]):
            try:
                obs(f"E6[{seed},{label},{j}]", hook(value))
            except Exception as e:  # noqa
                obs(f"E6[{seed},{label},{j}]:raised", e)

    obs(f"E[{seed}]:final-listing", dir_state(directory))
    os.chdir(TMP)


def main():
    start_dir = os.getcwd()
    try:
        for seed in (11, 12):
            section_settings(seed)
        for seed in (21, 22):
            section_recordings(seed)
        for seed in (31, 32):
            section_hvsr(seed)
        section_lost_cwd(41)
        for seed in (51, 52):
            section_upstream(seed)
    finally:
        os.chdir(start_dir)
        shutil.rmtree(TMP, ignore_errors=True)
        if _LOG is not None:
            _LOG.close()
    sys.stderr.write(f"{_COUNT[0]} observations\n")
    print("DIGEST " + _DIGEST.hexdigest())


if __name__ == "__main__":
    main()
