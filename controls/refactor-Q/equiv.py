"""Equivalence digest of the statistics code of hvsrpy.

Run as

    cd /tmp/r12/ctlQ && PYTHONPATH=<tree> MPLBACKEND=Agg /venv/bin/python _control/equiv.py

Prints one line ``DIGEST <sha256>`` of everything observable that the
script collects (returned values and their types, exceptions and their
messages, categories of warnings, state of the objects before / after,
aliasing of returned objects, files written, artists drawn).

Floating-point values are rounded to 11 significant digits before they
are hashed (nan / inf / sign of zero are kept exact); with ``--exact``
the hexadecimal representation is hashed instead (bit-for-bit).
``--verbose`` prints the number of records per section to stderr and
``--dump FILE`` writes all records to FILE (for diffing two trees).
"""

import hashlib
import os
import shutil
import sys
import tempfile
import warnings

import numpy as np

import matplotlib
matplotlib.use("Agg")
import matplotlib.pyplot as plt

import hvsrpy
from hvsrpy import HvsrCurve, HvsrTraditional, HvsrAzimuthal, HvsrDiffuseField
from hvsrpy import statistics as hstat
from hvsrpy import object_io, window_rejection, postprocessing

EXACT = "--exact" in sys.argv
VERBOSE = "--verbose" in sys.argv
DUMP = sys.argv[sys.argv.index("--dump") + 1] if "--dump" in sys.argv else None

RECORDS = []
SECTION_COUNTS = {}


# --------------------------------------------------------------------------
# canonical representation
# --------------------------------------------------------------------------

def cfloat(x):
    x = float(x)
    if x != x:
        return "nan"
    if x in (float("inf"), float("-inf")):
        return "inf" if x > 0 else "-inf"
    if EXACT:
        return x.hex()
    return format(x, ".10e")


def canon(obj):
    if obj is None:
        return "None"
    if isinstance(obj, (bool, np.bool_)):
        return f"{type(obj).__name__}:{bool(obj)}"
    if isinstance(obj, (int, np.integer)):
        return f"{type(obj).__name__}:{int(obj)}"
    if isinstance(obj, (float, np.floating)):
        return f"{type(obj).__name__}:{cfloat(obj)}"
    if isinstance(obj, (complex, np.complexfloating)):
        return f"{type(obj).__name__}:{cfloat(obj.real)}+{cfloat(obj.imag)}j"
    if isinstance(obj, str):
        return f"{type(obj).__name__}:{obj!s}"
    if isinstance(obj, bytes):
        return f"bytes:{obj!r}"
    if isinstance(obj, np.ndarray):
        flat = obj.ravel()
        if obj.dtype.kind == "f":
            body = ",".join(cfloat(v) for v in flat.tolist())
        elif obj.dtype.kind in "biu":
            body = ",".join(str(v) for v in flat.tolist())
        else:
            body = ",".join(canon(v) for v in flat.tolist())
        return f"ndarray[{obj.dtype.str}|{obj.shape}]({body})"
    if isinstance(obj, (list, tuple)):
        return f"{type(obj).__name__}(" + ";".join(canon(v) for v in obj) + ")"
    if isinstance(obj, dict):
        items = sorted((canon(k), canon(v)) for k, v in obj.items())
        return "dict(" + ";".join(f"{k}=>{v}" for k, v in items) + ")"
    if isinstance(obj, BaseException):
        return f"EXC<{type(obj).__name__}:{obj}>"
    return f"OBJ<{type(obj).__name__}>"


def record(section, label, value):
    SECTION_COUNTS[section] = SECTION_COUNTS.get(section, 0) + 1
    RECORDS.append(f"{section}|{label}|{canon(value)}")


def call(section, label, fxn, *args, **kwargs):
    """Call and record result or exception and categories of warnings."""
    with warnings.catch_warnings(record=True) as caught:
        warnings.simplefilter("always")
        try:
            result = fxn(*args, **kwargs)
        except Exception as e:
            result = e
    categories = sorted(set(w.category.__name__ for w in caught))
    record(section, label, result)
    record(section, label + "#warn", categories)
    return result


# --------------------------------------------------------------------------
# state of objects
# --------------------------------------------------------------------------

def state_traditional(hv):
    return ("T",
            np.array(hv.frequency, copy=True),
            np.array(hv.amplitude, copy=True),
            np.array(hv.valid_window_boolean_mask, copy=True),
            np.array(hv.valid_peak_boolean_mask, copy=True),
            np.array(hv._main_peak_frq, copy=True),
            np.array(hv._main_peak_amp, copy=True),
            hv.n_curves,
            canon_meta(hv.meta),
            canon(hv._search_range_in_hz),
            canon_meta(hv._find_peaks_kwargs))


def state_azimuthal(az):
    return ("A", list(az.azimuths), canon_meta(az.meta),
            [state_traditional(hv) for hv in az.hvsrs])


def canon_meta(meta):
    return canon(meta)


DISTRIBUTIONS_OK = ["lognormal", "normal", "log-normal"]
DISTRIBUTIONS_CASE = ["LogNormal", "NORMAL", "Log-Normal", "LOGNORMAL", "Normal"]


class MyStr(str):
    pass


DISTRIBUTIONS_ODD = ["", "gaussian", "log normal", "log_normal", " normal", "normal ",
                     None, 1, 1.5, b"normal", ["normal"], ("lognormal",), {"normal"},
                     MyStr("normal"), MyStr("LogNormal"), np.str_("lognormal"),
                     np.str_("NORMAL"), True, "nörmal", "ſ"]


def pick_distribution(rng):
    r = rng.random()
    if r < 0.6:
        return DISTRIBUTIONS_OK[int(rng.integers(len(DISTRIBUTIONS_OK)))]
    if r < 0.8:
        return DISTRIBUTIONS_CASE[int(rng.integers(len(DISTRIBUTIONS_CASE)))]
    return DISTRIBUTIONS_ODD[int(rng.integers(len(DISTRIBUTIONS_ODD)))]


def pick_n(rng, n_frequencies):
    options = [1, -1, 2, 0, 1.5, -2.25, np.float64(0.5), np.int64(3), True,
               np.float32(1.25), float("inf"), float("nan"),
               np.array([1., -1.]), np.linspace(-1, 1, n_frequencies),
               [1, 2], "1", None, 1 + 1j, -0.0]
    return options[int(rng.integers(len(options)))]


# --------------------------------------------------------------------------
# random inputs
# --------------------------------------------------------------------------

def make_frequency(rng, n_frequencies):
    style = int(rng.integers(4))
    if style == 0:
        return np.geomspace(0.1, 50, n_frequencies)
    if style == 1:
        return np.linspace(0.2, 25, n_frequencies)
    if style == 2:
        return np.linspace(0, 10, n_frequencies)  # 0 Hz grid
    return np.sort(rng.uniform(0.05, 60, n_frequencies))


def make_amplitude(rng, frequency, n_curves):
    n_frequencies = len(frequency)
    x = np.linspace(0, 1, n_frequencies)
    amplitude = np.empty((n_curves, n_frequencies))
    scale = 10**rng.uniform(-2, 2)
    for idx in range(n_curves):
        kind = rng.random()
        if kind < 0.12:
            # monotone, i.e., without a peak.
            curve = np.linspace(1, 2, n_frequencies) if rng.random() < 0.5 else np.linspace(3, 1, n_frequencies)
        elif kind < 0.17:
            curve = np.full(n_frequencies, 1.7)  # flat
        else:
            center = rng.uniform(0.1, 0.9)
            width = rng.uniform(0.03, 0.3)
            curve = 1 + rng.uniform(0.5, 6)*np.exp(-((x-center)/width)**2)
            curve = curve*np.exp(rng.normal(0, 0.15, n_frequencies))
            if rng.random() < 0.3:
                center = rng.uniform(0.1, 0.9)
                curve = curve + rng.uniform(0.5, 4)*np.exp(-((x-center)/0.05)**2)
        amplitude[idx] = curve*scale
    return amplitude


def poison(rng, hv, indices, allow_nan=True):
    """Write extreme values to (rejected) rows and their peaks."""
    for idx in indices:
        kind = int(rng.integers(6 if allow_nan else 5))
        cols = rng.random(hv.amplitude.shape[1]) < rng.uniform(0.1, 1)
        value = [0., np.inf, 1e308, 1e-320, -5., np.nan][kind]
        hv.amplitude[idx, cols] = value
        if rng.random() < 0.5:
            hv._main_peak_frq[idx] = [0., np.inf, np.nan, -1., 1e300][int(rng.integers(5))]
            hv._main_peak_amp[idx] = [0., np.inf, np.nan, -1., 1e300][int(rng.integers(5))]


def reject_some(rng, hv, probability):
    rejected = np.flatnonzero(rng.random(hv.n_curves) < probability)
    mode = int(rng.integers(3))
    for idx in rejected:
        if mode == 0 or rng.random() < 0.5:
            hv.valid_window_boolean_mask[idx] = False
            hv.valid_peak_boolean_mask[idx] = False
        elif mode == 1:
            hv.valid_peak_boolean_mask[idx] = False
        else:
            hv.valid_window_boolean_mask[idx] = False
    return rejected


def pick_search_range(rng, frequency):
    r = rng.random()
    lo, hi = float(np.min(frequency)), float(np.max(frequency))
    if r < 0.5:
        return (None, None)
    a, b = np.sort(rng.uniform(lo, hi, 2))
    if r < 0.65:
        return (float(a), None)
    if r < 0.8:
        return (None, float(b))
    if r < 0.9:
        return [float(a), float(b)]
    if r < 0.95:
        return (np.float64(a), np.float64(b))
    return (float(a), float(a))  # degenerate, usually no peak


def pick_find_peaks_kwargs(rng):
    r = rng.random()
    if r < 0.6:
        return None
    if r < 0.75:
        return {}
    if r < 0.9:
        return dict(prominence=float(rng.uniform(0.01, 0.5)))
    return dict(distance=int(rng.integers(1, 5)), height=float(rng.uniform(0.1, 2)))


# --------------------------------------------------------------------------
# sections
# --------------------------------------------------------------------------

TRADITIONAL_METHODS = ["mean_fn_frequency", "mean_fn_amplitude", "std_fn_frequency",
                       "std_fn_amplitude", "cov_fn", "mean_curve", "std_curve",
                       "mean_curve_peak"]
NTH_METHODS = ["nth_std_fn_frequency", "nth_std_fn_amplitude", "nth_std_curve"]


def exercise_statistics(section, tag, obj, rng, state_fxn, n_calls, extra_methods=()):
    n_frequencies = len(obj.frequency)
    before = state_fxn(obj)
    record(section, f"{tag}/state0", before)
    methods = TRADITIONAL_METHODS + list(extra_methods)
    for jdx in range(n_calls):
        r = rng.random()
        if r < 0.7:
            name = methods[int(rng.integers(len(methods)))]
            distribution = pick_distribution(rng)
            style = int(rng.integers(3))
            label = f"{tag}/{jdx}/{name}({canon(distribution)})s{style}"
            if style == 0:
                result = call(section, label, getattr(obj, name), distribution)
            elif style == 1:
                result = call(section, label, getattr(obj, name), distribution=distribution)
            else:
                result = call(section, label, getattr(obj, name))
        else:
            name = NTH_METHODS[int(rng.integers(len(NTH_METHODS)))]
            distribution = pick_distribution(rng)
            n = pick_n(rng, n_frequencies)
            style = int(rng.integers(3))
            label = f"{tag}/{jdx}/{name}({canon(n)},{canon(distribution)})s{style}"
            if style == 0:
                result = call(section, label, getattr(obj, name), n, distribution)
            elif style == 1:
                result = call(section, label, getattr(obj, name), n=n, distribution=distribution)
            else:
                result = call(section, label, getattr(obj, name), n)

        # independence of returned objects.
        arrays = []
        if isinstance(result, np.ndarray):
            arrays = [result]
        elif isinstance(result, tuple):
            arrays = [r for r in result if isinstance(r, np.ndarray)]
        for array in arrays:
            shares = False
            for hv in (obj.hvsrs if hasattr(obj, "hvsrs") else [obj]):
                for other in (hv.amplitude, hv.frequency, hv._main_peak_frq, hv._main_peak_amp):
                    shares = shares or bool(np.shares_memory(array, other))
            record(section, f"{tag}/{jdx}/shares", shares)
            record(section, f"{tag}/{jdx}/flags", (array.flags.c_contiguous, array.flags.writeable, array.flags.owndata))
            if array.flags.writeable and array.dtype.kind == "f":
                array[...] = -123.
        if rng.random() < 0.25:
            record(section, f"{tag}/{jdx}/state", canon(state_fxn(obj)) == canon(before))
    record(section, f"{tag}/state1", state_fxn(obj))


def section_traditional(seed, n_objects):
    section = "traditional"
    rng = np.random.default_rng(seed)
    for odx in range(n_objects):
        n_frequencies = int(rng.integers(3, 70))
        n_curves = int(rng.integers(1, 45)) if rng.random() < 0.9 else int(rng.integers(100, 400))
        frequency = make_frequency(rng, n_frequencies)
        amplitude = make_amplitude(rng, frequency, n_curves)
        r = rng.random()
        tag = f"T{odx}"
        # unusual-but-legal argument types.
        if r < 0.15:
            args = (frequency.tolist(), amplitude.tolist())
        elif r < 0.25:
            args = (tuple(frequency.tolist()), tuple(map(tuple, amplitude.tolist())))
        elif r < 0.3 and n_curves >= 1:
            args = (frequency, amplitude[0])  # single curve as vector
        elif r < 0.35:
            args = (frequency.astype(np.float32), np.asfortranarray(amplitude))
        elif r < 0.4:
            args = (np.arange(1, n_frequencies+1), np.round(amplitude*10).astype(int))
        else:
            args = (frequency, amplitude)
        meta = [None, {}, {"a": 1}, "not a dict"][int(rng.integers(4))]
        hv = call(section, f"{tag}/init", HvsrTraditional, *args, meta=meta)
        if isinstance(hv, Exception):
            continue
        if rng.random() < 0.5:
            call(section, f"{tag}/update", hv.update_peaks_bounded,
                 search_range_in_hz=pick_search_range(rng, hv.frequency),
                 find_peaks_kwargs=pick_find_peaks_kwargs(rng))
        rejected = reject_some(rng, hv, rng.choice([0., 0.1, 0.5, 0.9, 1.0]))
        r = rng.random()
        if r < 0.45:
            poison(rng, hv, rejected)
        elif r < 0.55:
            # extreme values in accepted windows (no nan, as on input).
            poison(rng, hv, np.flatnonzero(rng.random(hv.n_curves) < 0.2), allow_nan=False)
        exercise_statistics(section, tag, hv, rng, state_traditional, int(rng.integers(8, 22)))
        record(section, f"{tag}/peaks", (hv.peak_frequencies, hv.peak_amplitudes))


def make_azimuthal(rng, section, tag):
    n_frequencies = int(rng.integers(3, 50))
    n_azimuths = int(rng.integers(1, 9))
    frequency = make_frequency(rng, n_frequencies)
    same_n = rng.random() < 0.5
    n_curves = int(rng.integers(1, 25)) if rng.random() < 0.92 else int(rng.integers(80, 200))
    hvsrs = []
    for _ in range(n_azimuths):
        n = n_curves if same_n else int(rng.integers(2, 25))
        hvsrs.append(HvsrTraditional(frequency, make_amplitude(rng, frequency, n)))
    r = rng.random()
    if r < 0.5:
        azimuths = np.linspace(0, 180, n_azimuths, endpoint=False)
    else:
        azimuths = rng.uniform(0, 180, n_azimuths)  # unordered
    if rng.random() < 0.3:
        azimuths = azimuths.tolist()
    if rng.random() < 0.2:
        azimuths = [int(a) for a in azimuths]
    meta = [None, {}, {"b": [1, 2]}][int(rng.integers(3))]
    az = call(section, f"{tag}/init", HvsrAzimuthal, hvsrs, azimuths, meta=meta)
    return az, hvsrs, azimuths


AZIMUTHAL_EXTRA = ["mean_curve_by_azimuth", "mean_curve_peak_by_azimuth"]


def section_azimuthal(seed, n_objects):
    section = "azimuthal"
    rng = np.random.default_rng(seed)
    for odx in range(n_objects):
        tag = f"A{odx}"
        az, hvsrs, azimuths = make_azimuthal(rng, section, tag)
        if isinstance(az, Exception):
            continue
        if rng.random() < 0.5:
            call(section, f"{tag}/update", az.update_peaks_bounded,
                 search_range_in_hz=pick_search_range(rng, az.frequency),
                 find_peaks_kwargs=pick_find_peaks_kwargs(rng))
        level = rng.choice([0., 0.1, 0.3, 0.6])
        for hv in az.hvsrs:
            probability = 1.0 if rng.random() < 0.015 else level
            rejected = reject_some(rng, hv, probability)
            r = rng.random()
            if r < 0.45:
                poison(rng, hv, rejected)
            elif r < 0.5:
                poison(rng, hv, np.flatnonzero(rng.random(hv.n_curves) < 0.15), allow_nan=False)
        for for_curves in (False, True, 0, 1, None, "yes"):
            call(section, f"{tag}/weights({for_curves!r})", az._compute_statistical_weights, for_curves)
        call(section, f"{tag}/weights()", az._compute_statistical_weights)
        call(section, f"{tag}/weights(kw)", az._compute_statistical_weights, for_curves=True)
        exercise_statistics(section, tag, az, rng, state_azimuthal, int(rng.integers(8, 22)),
                            extra_methods=AZIMUTHAL_EXTRA)
        record(section, f"{tag}/peaks", (az.peak_frequencies, az.peak_amplitudes))
        record(section, f"{tag}/inputs", [state_traditional(hv) for hv in hvsrs])

        # same content, other order of azimuths.
        if rng.random() < 0.5 and len(az.hvsrs) > 1:
            order = rng.permutation(len(az.hvsrs))
            other = call(section, f"{tag}/perm/init", HvsrAzimuthal,
                         [az.hvsrs[i] for i in order], [az.azimuths[i] for i in order])
            if isinstance(other, Exception):
                continue
            for i_new, i_old in enumerate(order):
                other.hvsrs[i_new].update_peaks_bounded(az.hvsrs[i_old]._search_range_in_hz
                                                        if isinstance(az.hvsrs[i_old]._search_range_in_hz, tuple) else (None, None),
                                                        az.hvsrs[i_old].meta["find_peaks_kwargs"])
                other.hvsrs[i_new].valid_window_boolean_mask[:] = az.hvsrs[i_old].valid_window_boolean_mask
                other.hvsrs[i_new].valid_peak_boolean_mask[:] = az.hvsrs[i_old].valid_peak_boolean_mask
            for name in TRADITIONAL_METHODS:
                for distribution in ("normal", "lognormal"):
                    call(section, f"{tag}/perm/{name}/{distribution}", getattr(other, name), distribution)


def section_errors(seed):
    """Error paths, repeated calls after an exception."""
    section = "errors"
    rng = np.random.default_rng(seed)
    frequency = np.geomspace(0.2, 20, 30)
    for odx in range(25):
        tag = f"E{odx}"
        amplitude = make_amplitude(rng, frequency, int(rng.integers(2, 12)))
        hv = HvsrTraditional(frequency, amplitude)
        for name in TRADITIONAL_METHODS:
            for distribution in DISTRIBUTIONS_ODD + DISTRIBUTIONS_CASE:
                call(section, f"{tag}/{name}({canon(distribution)})", getattr(hv, name), distribution)
            call(section, f"{tag}/{name}/after", getattr(hv, name), "normal")
        for name in NTH_METHODS:
            for distribution in DISTRIBUTIONS_ODD + DISTRIBUTIONS_CASE + DISTRIBUTIONS_OK:
                call(section, f"{tag}/{name}({canon(distribution)})", getattr(hv, name), 1, distribution)
                call(section, f"{tag}/{name}({canon(distribution)})kw", getattr(hv, name), n=-2., distribution=distribution)
            call(section, f"{tag}/{name}/noargs", getattr(hv, name))
        # one, two and no valid windows.
        for n_valid in (2, 1, 0):
            hv.valid_window_boolean_mask[:] = False
            hv.valid_peak_boolean_mask[:] = False
            keep = rng.permutation(hv.n_curves)[:n_valid]
            hv.valid_window_boolean_mask[keep] = True
            hv.valid_peak_boolean_mask[keep] = True
            for name in TRADITIONAL_METHODS:
                for distribution in ("normal", "lognormal", "bogus", "NORMAL"):
                    call(section, f"{tag}/v{n_valid}/{name}({distribution})", getattr(hv, name), distribution)
            for name in NTH_METHODS:
                for distribution in ("normal", "lognormal", "bogus", "NORMAL"):
                    call(section, f"{tag}/v{n_valid}/{name}({distribution})", getattr(hv, name), 1.5, distribution)
        # no peak of the mean curve in range, then again with a wide range.
        hv.valid_window_boolean_mask[:] = True
        hv.valid_peak_boolean_mask[:] = True
        call(section, f"{tag}/narrow", hv.update_peaks_bounded, search_range_in_hz=(0.2, 0.21))
        call(section, f"{tag}/narrow/mcp", hv.mean_curve_peak, "lognormal")
        call(section, f"{tag}/narrow/mcp2", hv.mean_curve_peak, "lognormal")
        call(section, f"{tag}/narrow/mean_fn", hv.mean_fn_frequency, "lognormal")
        call(section, f"{tag}/narrow/std_curve", hv.std_curve, "lognormal")
        call(section, f"{tag}/wide", hv.update_peaks_bounded, search_range_in_hz=(None, None))
        call(section, f"{tag}/wide/mcp", hv.mean_curve_peak, "lognormal")
        record(section, f"{tag}/state", state_traditional(hv))

    for odx in range(25):
        tag = f"EA{odx}"
        n_azimuths = int(rng.integers(1, 6))
        hvsrs = [HvsrTraditional(frequency, make_amplitude(rng, frequency, int(rng.integers(1, 8))))
                 for _ in range(n_azimuths)]
        az = HvsrAzimuthal(hvsrs, rng.uniform(0, 180, n_azimuths))
        methods = TRADITIONAL_METHODS + AZIMUTHAL_EXTRA
        for name in methods:
            for distribution in DISTRIBUTIONS_ODD + DISTRIBUTIONS_CASE:
                call(section, f"{tag}/{name}({canon(distribution)})", getattr(az, name), distribution)
            call(section, f"{tag}/{name}/after", getattr(az, name), "lognormal")
        for name in NTH_METHODS:
            for distribution in DISTRIBUTIONS_ODD + DISTRIBUTIONS_CASE + DISTRIBUTIONS_OK:
                call(section, f"{tag}/{name}({canon(distribution)})", getattr(az, name), 1, distribution)
                call(section, f"{tag}/{name}({canon(distribution)})kw", getattr(az, name), n=-2., distribution=distribution)
        # one azimuth without valid windows / without valid peaks.
        victim = az.hvsrs[int(rng.integers(n_azimuths))]
        saved = (victim.valid_window_boolean_mask.copy(), victim.valid_peak_boolean_mask.copy())
        for what in ("windows", "peaks", "both"):
            if what in ("windows", "both"):
                victim.valid_window_boolean_mask[:] = False
            if what in ("peaks", "both"):
                victim.valid_peak_boolean_mask[:] = False
            for name in methods:
                for distribution in ("normal", "lognormal", "bogus", "Normal"):
                    call(section, f"{tag}/{what}/{name}({distribution})", getattr(az, name), distribution)
            for name in NTH_METHODS:
                call(section, f"{tag}/{what}/{name}", getattr(az, name), 2, "lognormal")
            for for_curves in (False, True):
                call(section, f"{tag}/{what}/weights{for_curves}", az._compute_statistical_weights, for_curves)
            victim.valid_window_boolean_mask[:] = saved[0]
            victim.valid_peak_boolean_mask[:] = saved[1]
            # repeated after the exception, everything valid again.
            for name in methods:
                call(section, f"{tag}/{what}/restored/{name}", getattr(az, name), "lognormal")
        # single valid window per azimuth (1-sum(w^2) is zero for one azimuth).
        for hv in az.hvsrs:
            hv.valid_window_boolean_mask[:] = False
            hv.valid_peak_boolean_mask[:] = False
            hv.valid_window_boolean_mask[0] = True
            hv.valid_peak_boolean_mask[0] = True
        for name in methods + ["nth"]:
            for distribution in ("normal", "lognormal"):
                if name == "nth":
                    call(section, f"{tag}/single/nth_curve({distribution})", az.nth_std_curve, 1, distribution)
                    call(section, f"{tag}/single/nth_f({distribution})", az.nth_std_fn_frequency, 1, distribution)
                else:
                    call(section, f"{tag}/single/{name}({distribution})", getattr(az, name), distribution)
        # no peak of the mean curve in range.
        for hv in az.hvsrs:
            hv.valid_window_boolean_mask[:] = True
            hv.valid_peak_boolean_mask[:] = True
        call(section, f"{tag}/narrow", az.update_peaks_bounded, search_range_in_hz=(0.2, 0.21))
        for name in methods:
            call(section, f"{tag}/narrow/{name}", getattr(az, name), "lognormal")
        call(section, f"{tag}/wide", az.update_peaks_bounded, search_range_in_hz=(None, None))
        for name in methods:
            call(section, f"{tag}/wide/{name}", getattr(az, name), "lognormal")
        record(section, f"{tag}/state", state_azimuthal(az))

    # constructor errors.
    good = HvsrTraditional(frequency, make_amplitude(rng, frequency, 3))
    call(section, "ctor/notrad", HvsrAzimuthal, [good, "x"], [0, 10])
    call(section, "ctor/azimuth", HvsrAzimuthal, [good, good], [0, 190])
    call(section, "ctor/azimuth2", HvsrAzimuthal, [good, good], [0, "a"])
    call(section, "ctor/empty", HvsrAzimuthal, [], [])
    call(section, "ctor/dissimilar", HvsrAzimuthal,
         [good, HvsrTraditional(frequency[:-1], make_amplitude(rng, frequency[:-1], 3))], [0, 10])
    call(section, "ctor/nan", HvsrTraditional, frequency, np.full((2, 30), np.nan))
    call(section, "ctor/neg", HvsrTraditional, frequency, -np.ones((2, 30)))
    call(section, "ctor/shape", HvsrTraditional, frequency, np.ones((2, 29)))
    call(section, "ctor/str", HvsrTraditional, frequency, "abc")


def section_helpers(seed, n_cases):
    """Private helpers of hvsrpy.statistics called directly."""
    section = "helpers"
    rng = np.random.default_rng(seed)
    all_distributions = DISTRIBUTIONS_OK + DISTRIBUTIONS_CASE + DISTRIBUTIONS_ODD
    sample = np.array([0.5, 1., 2.5, 0., np.inf, np.nan, -1.])
    for distribution in all_distributions:
        for calculation in ("mean", "std", "bogus", None):
            def probe(distribution=distribution, calculation=calculation):
                pre, post = hstat._distribution_factory(distribution, calculation)
                return (pre(sample), post(sample), pre(sample) is sample, post(sample) is sample)
            call(section, f"factory({canon(distribution)},{calculation})", probe)
        call(section, f"factory1({canon(distribution)})", lambda d=distribution: hstat._distribution_factory(d)[0](sample))
        for n in (1, -2.5, np.array([1., 2.])):
            call(section, f"nth({canon(distribution)},{canon(n)})", hstat._nth_std_factory, n, distribution, 2.5, 0.3)
            call(section, f"nthv({canon(distribution)},{canon(n)})", hstat._nth_std_factory, n, distribution,
                 np.array([2.5, 1.5]), np.array([0.3, 0.1]))
    record(section, "map", dict(hvsrpy.constants.DISTRIBUTION_MAP))
    record(section, "map_is", hstat.DISTRIBUTION_MAP is hvsrpy.constants.DISTRIBUTION_MAP)
    call(section, "flatten", hstat._flatten_list, [[1, 2], (3,), np.array([4., 5.]), []])
    call(section, "flatten_empty", hstat._flatten_list, [])
    call(section, "flatten_bad", hstat._flatten_list, [1, 2])

    for cdx in range(n_cases):
        tag = f"H{cdx}"
        ndim = 1 if rng.random() < 0.5 else 2
        shape = (int(rng.integers(1, 40)),) if ndim == 1 else (int(rng.integers(1, 30)), int(rng.integers(1, 12)))
        values = np.exp(rng.normal(0, 1, shape))
        r = rng.random()
        if r < 0.3:
            values[rng.random(shape) < 0.2] = np.nan
        elif r < 0.4:
            values[rng.random(shape) < 0.1] = 0.
        elif r < 0.5:
            values[rng.random(shape) < 0.1] = np.inf
        elif r < 0.55:
            values[rng.random(shape) < 0.1] = -1.
        r = rng.random()
        if r < 0.4:
            weights = None
        elif r < 0.7:
            weights = rng.random(shape)
            weights = weights/np.sum(weights)
        elif r < 0.85 and ndim == 2:
            weights = rng.random((shape[0], 1))
        else:
            weights = rng.random(shape)
            weights[rng.random(shape) < 0.2] = np.nan
        if ndim == 1:
            kwargs = [None, {}, dict(axis=0), dict(axis=-1), dict(axis=0, keepdims=True)][int(rng.integers(5))]
        else:
            kwargs = [None, {}, dict(axis=0), dict(axis=1), dict(axis=-1, keepdims=True),
                      dict(axis=None), dict(axis=2), dict(bogus=1)][int(rng.integers(8))]
        distribution = pick_distribution(rng)
        denominator = ["nist", "cheng", "nist", "cheng", "bogus", None][int(rng.integers(6))]
        values_before = values.copy()
        weights_before = None if weights is None else weights.copy()
        kwargs_before = None if kwargs is None else dict(kwargs)
        as_list = rng.random() < 0.1 and ndim == 1
        v = values.tolist() if as_list else values
        call(section, f"{tag}/mean", hstat._nanmean_weighted, distribution, v, weights, kwargs)
        call(section, f"{tag}/meankw", hstat._nanmean_weighted, distribution=distribution, values=v,
             weights=weights, mean_kwargs=kwargs)
        call(section, f"{tag}/std", hstat._nanstd_weighted, distribution, v, weights, kwargs, denominator)
        call(section, f"{tag}/stdkw", hstat._nanstd_weighted, distribution=distribution, values=v,
             weights=weights, std_kwargs=kwargs, denominator=denominator)
        call(section, f"{tag}/std_default", hstat._nanstd_weighted, distribution, v)
        record(section, f"{tag}/untouched", (np.array_equal(values, values_before, equal_nan=True),
                                             weights is None or np.array_equal(weights, weights_before, equal_nan=True),
                                             kwargs == kwargs_before))


def section_mutations(seed, n_objects):
    """Attributes replaced by the user after construction (legal, if unusual)."""
    section = "mutations"
    rng = np.random.default_rng(seed)
    methods = TRADITIONAL_METHODS + AZIMUTHAL_EXTRA
    for odx in range(n_objects):
        tag = f"M{odx}"
        n_frequencies = int(rng.integers(1, 30))
        frequency = make_frequency(rng, n_frequencies) if n_frequencies > 2 else np.arange(1., n_frequencies+1)
        n_azimuths = int(rng.integers(1, 5))
        hvsrs = [HvsrTraditional(frequency, make_amplitude(rng, frequency, int(rng.integers(2, 12))))
                 for _ in range(n_azimuths)]
        az = HvsrAzimuthal(hvsrs, rng.uniform(0, 180, n_azimuths))
        kind = odx % 8
        for hv in az.hvsrs:
            reject_some(rng, hv, 0.2)
            if kind == 0:
                hv.valid_window_boolean_mask = hv.valid_window_boolean_mask.tolist()
                hv.valid_peak_boolean_mask = hv.valid_peak_boolean_mask.tolist()
            elif kind == 1:
                hv.amplitude = hv.amplitude.astype(np.float32)
            elif kind == 2:
                hv.amplitude = np.round(hv.amplitude*100).astype(np.int64)
            elif kind == 3:
                hv.amplitude = np.asfortranarray(hv.amplitude)
            elif kind == 4:
                hv.amplitude = hv.amplitude[:, ::-1][:, ::-1]
                hv.frequency = hv.frequency.astype(np.float32)
            elif kind == 5:
                hv.amplitude.flags.writeable = False
                hv.frequency.flags.writeable = False
        if kind == 6:
            az.hvsrs = []
        if kind == 7:
            az.azimuths = az.azimuths + [10.]
        for name in methods:
            if kind >= 6 and name in AZIMUTHAL_EXTRA:
                continue  # np.empty rows that are never written (arbitrary memory).
            for distribution in ("normal", "lognormal", "bogus"):
                call(section, f"{tag}/k{kind}/{name}({distribution})", getattr(az, name), distribution)
                if kind < 6:
                    for hdx, hv in enumerate(az.hvsrs[:2]):
                        if hasattr(hv, name):
                            call(section, f"{tag}/k{kind}/h{hdx}/{name}({distribution})", getattr(hv, name), distribution)
        for name in NTH_METHODS:
            call(section, f"{tag}/k{kind}/{name}", getattr(az, name), -1.5, "lognormal")
        for for_curves in (False, True):
            call(section, f"{tag}/k{kind}/weights{for_curves}", az._compute_statistical_weights, for_curves)


def section_diffuse_and_curve(seed, n_objects):
    section = "diffuse"
    rng = np.random.default_rng(seed)
    for odx in range(n_objects):
        tag = f"D{odx}"
        n_frequencies = int(rng.integers(3, 80))
        frequency = make_frequency(rng, n_frequencies)
        amplitude = make_amplitude(rng, frequency, 1)[0]
        for cls in (HvsrDiffuseField, HvsrCurve):
            obj = call(section, f"{tag}/{cls.__name__}/init", cls, frequency, amplitude,
                       meta=[None, {"x": 1}][int(rng.integers(2))])
            if isinstance(obj, Exception):
                continue
            record(section, f"{tag}/{cls.__name__}/peak", (obj.peak_frequency, obj.peak_amplitude))
            call(section, f"{tag}/{cls.__name__}/update", obj.update_peaks_bounded,
                 search_range_in_hz=pick_search_range(rng, frequency),
                 find_peaks_kwargs=pick_find_peaks_kwargs(rng))
            record(section, f"{tag}/{cls.__name__}/peak2", (obj.peak_frequency, obj.peak_amplitude, canon(obj.meta)))
        df = HvsrDiffuseField(frequency, amplitude)
        for distribution in (None, "normal", "bogus", 3):
            mc = call(section, f"{tag}/mean_curve({distribution})", df.mean_curve, distribution)
            record(section, f"{tag}/mean_curve_is({distribution})", mc is df.amplitude)
        call(section, f"{tag}/mean_curve()", df.mean_curve)
        for kdx in range(6):
            search_range = pick_search_range(rng, frequency)
            kwargs = pick_find_peaks_kwargs(rng)
            distribution = pick_distribution(rng)
            call(section, f"{tag}/mcp{kdx}", df.mean_curve_peak, distribution, search_range, kwargs)
            call(section, f"{tag}/mcpkw{kdx}", df.mean_curve_peak, distribution=distribution,
                 search_range_in_hz=search_range, find_peaks_kwargs=kwargs)
        call(section, f"{tag}/mcp()", df.mean_curve_peak)
        call(section, f"{tag}/mcp_degenerate", df.mean_curve_peak, None, (frequency[0], frequency[0]))
        call(section, f"{tag}/mcp_badrange", df.mean_curve_peak, None, (1,))
        call(section, f"{tag}/mcp_badkwargs", df.mean_curve_peak, None, (None, None), dict(bogus=1))
        call(section, f"{tag}/mcp_after", df.mean_curve_peak)
        flat = HvsrDiffuseField(frequency, np.linspace(1, 2, n_frequencies))
        call(section, f"{tag}/flat", flat.mean_curve_peak)
        record(section, f"{tag}/state", (df.frequency, df.amplitude, canon(df.meta), df.peak_frequency, df.peak_amplitude))
        # static peak finders.
        call(section, f"{tag}/static_bounded", HvsrCurve._find_peak_bounded, frequency, amplitude,
             pick_search_range(rng, frequency), pick_find_peaks_kwargs(rng))
        call(section, f"{tag}/static_unbounded", HvsrCurve._find_peak_unbounded, frequency, amplitude)


def record_file(section, label, content):
    """Header (text) as is, numbers as all other floating-point values."""
    text = content.decode("utf-8", "replace")
    if EXACT:
        record(section, label, text)
        return
    lines = text.splitlines()
    header = [line for line in lines if line.startswith("#")]
    body = [[float(entry) for entry in line.split(",")] for line in lines if not line.startswith("#")]
    record(section, label + "/header", header)
    record(section, label + "/body", np.array(body))


def section_rejection_and_io(seed, n_objects, tmpdir):
    section = "rejection_io"
    rng = np.random.default_rng(seed)
    for odx in range(n_objects):
        tag = f"R{odx}"
        n_frequencies = int(rng.integers(10, 60))
        frequency = make_frequency(rng, n_frequencies)
        if odx % 2 == 0:
            obj = HvsrTraditional(frequency, make_amplitude(rng, frequency, int(rng.integers(3, 60))),
                                  meta={"tag": tag})
            state_fxn = state_traditional
        else:
            n_azimuths = int(rng.integers(1, 6))
            obj = HvsrAzimuthal([HvsrTraditional(frequency, make_amplitude(rng, frequency, int(rng.integers(3, 30))))
                                 for _ in range(n_azimuths)],
                                np.linspace(0, 180, n_azimuths, endpoint=False), meta={"tag": tag})
            state_fxn = state_azimuthal
        distribution_fn = ["lognormal", "normal"][int(rng.integers(2))]
        distribution_mc = ["lognormal", "normal"][int(rng.integers(2))]
        call(section, f"{tag}/fdwra", window_rejection.frequency_domain_window_rejection, obj,
             n=float(rng.choice([1., 1.5, 2., 2.5])), max_iterations=int(rng.integers(1, 30)),
             distribution_fn=distribution_fn, distribution_mc=distribution_mc,
             search_range_in_hz=pick_search_range(rng, frequency),
             find_peaks_kwargs=pick_find_peaks_kwargs(rng))
        record(section, f"{tag}/state", state_fxn(obj))
        for name in TRADITIONAL_METHODS:
            call(section, f"{tag}/{name}", getattr(obj, name), distribution_fn)
        fname = os.path.join(tmpdir, f"{tag}.csv")
        call(section, f"{tag}/write", object_io.write_hvsr_object_to_file, obj, fname,
             distribution_mc, distribution_fn)
        if os.path.exists(fname):
            with open(fname, "rb") as f:
                content = f.read()
            content = content.replace(hvsrpy.__version__.encode(), b"VERSION")
            record_file(section, f"{tag}/file", content)
            loaded = call(section, f"{tag}/read", object_io.read_hvsr_object_from_file, fname)
            if not isinstance(loaded, Exception):
                record(section, f"{tag}/read_state", state_fxn(loaded))
                for name in TRADITIONAL_METHODS:
                    call(section, f"{tag}/read/{name}", getattr(loaded, name), distribution_mc)
            os.remove(fname)
        call(section, f"{tag}/write_bad", object_io.write_hvsr_object_to_file, obj, fname, "bogus", "bogus")
        if os.path.exists(fname):
            os.remove(fname)
    # diffuse field.
    frequency = np.geomspace(0.1, 30, 40)
    df = HvsrDiffuseField(frequency, make_amplitude(rng, frequency, 1)[0])
    fname = os.path.join(tmpdir, "df.csv")
    call(section, "df/write", object_io.write_hvsr_object_to_file, df, fname)
    if os.path.exists(fname):
        with open(fname, "rb") as f:
            record_file(section, "df/file", f.read().replace(hvsrpy.__version__.encode(), b"VERSION"))
        loaded = call(section, "df/read", object_io.read_hvsr_object_from_file, fname)
        if not isinstance(loaded, Exception):
            call(section, "df/read/mcp", loaded.mean_curve_peak)
        os.remove(fname)


def artists(fig):
    out = []
    for adx, ax in enumerate(fig.axes):
        out.append(("axes", adx, ax.get_xlabel(), ax.get_ylabel(), ax.get_xscale(), ax.get_yscale(),
                    getattr(ax, "get_zlabel", lambda: "")()))
        for line in ax.lines:
            try:
                data = [np.asarray(d, dtype=float) for d in line.get_data()]
            except Exception as e:  # 3d lines
                data = [str(type(e).__name__)]
            out.append(("line", str(line.get_label()), str(line.get_color()), str(line.get_linestyle()),
                        float(line.get_linewidth()), str(line.get_marker()), data))
        for collection in ax.collections:
            paths = []
            try:
                for path in collection.get_paths()[:200]:
                    paths.append(np.asarray(path.vertices, dtype=float))
            except Exception as e:
                paths.append(type(e).__name__)
            array = collection.get_array()
            out.append(("collection", type(collection).__name__, str(collection.get_label()), paths,
                        None if array is None else np.asarray(array, dtype=float)))
        for text in ax.texts:
            out.append(("text", text.get_text()))
        legend = ax.get_legend()
        if legend is not None:
            out.append(("legend", [t.get_text() for t in legend.get_texts()]))
    return out


def section_plots(seed, n_objects):
    section = "plots"
    rng = np.random.default_rng(seed)
    for odx in range(n_objects):
        tag = f"P{odx}"
        n_frequencies = int(rng.integers(10, 40))
        frequency = np.geomspace(0.2, 20, n_frequencies)
        distribution_fn = ["lognormal", "normal"][int(rng.integers(2))]
        distribution_mc = ["lognormal", "normal"][int(rng.integers(2))]
        if odx % 2 == 0:
            obj = HvsrTraditional(frequency, make_amplitude(rng, frequency, int(rng.integers(3, 25))))
            reject_some(rng, obj, 0.2)
        else:
            n_azimuths = int(rng.integers(2, 6))
            obj = HvsrAzimuthal([HvsrTraditional(frequency, make_amplitude(rng, frequency, int(rng.integers(3, 12))))
                                 for _ in range(n_azimuths)],
                                np.linspace(0, 180, n_azimuths, endpoint=False))
            for hv in obj.hvsrs:
                reject_some(rng, hv, 0.2)

        def draw_single():
            fig, ax = postprocessing.plot_single_panel_hvsr_curves(obj, distribution_mc=distribution_mc,
                                                                   distribution_fn=distribution_fn,
                                                                   plot_invalid_curves=True,
                                                                   plot_peak_individual_invalid_curves=True)
            return artists(fig)
        call(section, f"{tag}/single", draw_single)
        plt.close("all")
        if odx % 2 == 1:
            def draw_2d():
                fig, ax = postprocessing.plot_azimuthal_contour_2d(obj, distribution_mc=distribution_mc)
                return artists(fig)
            call(section, f"{tag}/contour2d", draw_2d)
            plt.close("all")
            if odx % 4 == 1:
                def draw_summary():
                    result = postprocessing.plot_azimuthal_summary(obj, distribution_mc=distribution_mc,
                                                                   distribution_fn=distribution_fn)
                    fig = result[0] if isinstance(result, tuple) else result
                    return artists(fig)
                call(section, f"{tag}/summary", draw_summary)
                plt.close("all")
        call(section, f"{tag}/bad", postprocessing.plot_single_panel_hvsr_curves, obj, distribution_mc="bogus")
        plt.close("all")


def main():
    tmpdir = tempfile.mkdtemp(prefix="equiv_", dir=os.path.dirname(os.path.abspath(__file__)))
    try:
        section_helpers(seed=101, n_cases=260)
        section_traditional(seed=202, n_objects=170)
        section_azimuthal(seed=303, n_objects=170)
        section_errors(seed=404)
        section_mutations(seed=454, n_objects=48)
        section_diffuse_and_curve(seed=505, n_objects=40)
        section_rejection_and_io(seed=606, n_objects=40, tmpdir=tmpdir)
        section_plots(seed=707, n_objects=12)
    finally:
        plt.close("all")
        shutil.rmtree(tmpdir, ignore_errors=True)

    digest = hashlib.sha256()
    for entry in RECORDS:
        digest.update(entry.encode("utf-8", "replace"))
        digest.update(b"\n")
    if VERBOSE:
        print(SECTION_COUNTS, len(RECORDS), file=sys.stderr)
    if DUMP is not None:
        with open(DUMP, "w", encoding="utf-8") as f:
            for entry in RECORDS:
                f.write(entry + "\n")
    print(f"DIGEST {digest.hexdigest()}")


if __name__ == "__main__":
    main()
