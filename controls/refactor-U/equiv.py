"""Differential fingerprint of hvsrpy's file readers.

Run as

    cd /tmp/r14/ctlU && PYTHONPATH=<tree> MPLBACKEND=Agg /venv/bin/python _control/equiv.py

Prints ``DIGEST <sha256>`` of everything observable from a few hundred
seeded calls / call sequences to ``hvsrpy.read``, ``hvsrpy.read_single``,
the private ``_read_*`` readers, their helpers, and the regular
expressions in ``hvsrpy.regex``: returned samples / time step /
orientation / meta, exception types + messages (+ context chain),
warnings, log records, state of caller-owned objects (option dicts,
iterators, in-memory files) after each call.

Optional: ``--dump FILE`` writes every fingerprinted line to FILE (for
diffing two trees); ``--verbose`` reports (on stderr) which copy of hvsrpy
was imported.
"""

import hashlib
import io
import itertools
import logging
import os
import pathlib
import random
import re
import shutil
import sys
import tempfile
import types
import warnings
import collections

import numpy as np
import obspy

import hvsrpy
from hvsrpy import data_wrangler as dw
from hvsrpy import regex as hvregex

HERE = pathlib.Path(__file__).resolve().parent
ROOT = HERE.parent
INPUT = ROOT / "test" / "data" / "input"

TMP = pathlib.Path(tempfile.mkdtemp(prefix="equiv_", dir=str(HERE)))

_sha = hashlib.sha256()
_dump = None
if "--dump" in sys.argv:
    _dump = open(sys.argv[sys.argv.index("--dump") + 1], "w")

_ADDR = re.compile(r"0x[0-9a-fA-F]{6,}")
_TSID = re.compile(r"samples at \d+")
_OBSPYTMP = re.compile(r"obspy-[A-Za-z0-9_]+")
_SYSTMP = re.compile(re.escape(tempfile.gettempdir()) + r"/[^\s'\"\]\),]+")


def norm(text):
    text = str(text)
    text = text.replace(str(TMP), "<TMP>")
    text = text.replace(str(ROOT), "<ROOT>")
    text = text.replace(TMP.name, "<TMPNAME>")
    text = _ADDR.sub("0xADDR", text)
    text = _TSID.sub("samples at ID", text)
    text = _OBSPYTMP.sub("obspy-TMP", text)
    text = _SYSTMP.sub("<SYSTMP>", text)
    return text


def emit(*parts):
    line = " | ".join(norm(p) for p in parts)
    _sha.update(line.encode("utf-8", "backslashreplace"))
    _sha.update(b"\n")
    if _dump is not None:
        _dump.write(line + "\n")


# --------------------------------------------------------------------------
# capture of logs
# --------------------------------------------------------------------------
class _ListHandler(logging.Handler):
    def __init__(self):
        super().__init__(level=logging.DEBUG)
        self.records = []

    def emit(self, record):
        try:
            msg = record.getMessage()
        except Exception as e:  # pragma: no cover
            msg = f"<unformattable {type(e).__name__}>"
        self.records.append((record.name, record.levelname, msg))


HANDLER = _ListHandler()
_hv_logger = logging.getLogger("hvsrpy")
_hv_logger.setLevel(logging.DEBUG)
_hv_logger.addHandler(HANDLER)
_hv_logger.propagate = False


# --------------------------------------------------------------------------
# description of objects
# --------------------------------------------------------------------------
def describe_array(a):
    a = np.asarray(a)
    return f"{a.dtype}{a.shape}:{hashlib.sha256(np.ascontiguousarray(a).tobytes()).hexdigest()[:24]}"


def describe_ts(ts):
    return f"TS({describe_array(ts.amplitude)},dt={ts.dt_in_seconds!r}:{type(ts.dt_in_seconds).__name__})"


def describe_value(v):
    if isinstance(v, hvsrpy.SeismicRecording3C):
        parts = [type(v).__name__]
        for name in ("ns", "ew", "vt"):
            parts.append(name + "=" + describe_ts(getattr(v, name)))
        parts.append(f"dfn={v.degrees_from_north!r}:{type(v.degrees_from_north).__name__}")
        meta_items = []
        for k, val in v.meta.items():
            meta_items.append(f"{k!r}:{type(val).__name__}:{val!r}")
        parts.append("meta={" + ", ".join(meta_items) + "}")
        return " ".join(parts)
    if isinstance(v, hvsrpy.TimeSeries):
        return describe_ts(v)
    if isinstance(v, np.ndarray):
        return describe_array(v)
    if isinstance(v, (list, tuple)):
        return type(v).__name__ + "[" + "; ".join(describe_value(x) for x in v) + "]"
    return f"{type(v).__name__}:{v!r}"


def describe_exception(e):
    chain = []
    seen = 0
    while e is not None and seen < 6:
        chain.append(f"{type(e).__module__}.{type(e).__qualname__}({str(e)!r})")
        nxt = e.__cause__ if e.__cause__ is not None else e.__context__
        chain.append("cause" if e.__cause__ is not None else "ctx")
        e = nxt
        seen += 1
    return " <- ".join(chain)


def describe_source(s):
    """State of a caller-owned source after a call."""
    if isinstance(s, (io.BytesIO, io.StringIO)):
        if s.closed:
            return f"{type(s).__name__}(closed)"
        return f"{type(s).__name__}(pos={s.tell()},len={len(s.getvalue())})"
    if isinstance(s, (list, tuple)):
        return type(s).__name__ + "[" + ", ".join(describe_source(x) for x in s) + "]"
    return f"{type(s).__name__}:{s!r}"


def describe_options(o):
    if isinstance(o, (dict, collections.UserDict, types.MappingProxyType)):
        return f"{type(o).__name__}:{dict(o)!r}"
    if isinstance(o, (list, tuple)):
        return type(o).__name__ + "[" + ", ".join(describe_options(x) for x in o) + "]"
    return f"{type(o).__name__}:{o!r}"


def call(label, func, *args, sources=None, options=None, **kwargs):
    """Call and fingerprint everything observable."""
    HANDLER.records.clear()
    result = None
    with warnings.catch_warnings(record=True) as caught:
        warnings.simplefilter("always")
        try:
            result = func(*args, **kwargs)
        except BaseException as e:  # noqa
            emit(label, "RAISED", describe_exception(e))
        else:
            emit(label, "RETURNED", describe_value(result))
    for w in caught:
        emit(label, "WARNING", w.category.__name__, str(w.message),
             os.path.basename(str(w.filename)))
    for rec in HANDLER.records:
        emit(label, "LOG", *rec)
    HANDLER.records.clear()
    if sources is not None:
        emit(label, "SOURCES", describe_source(sources))
    if options is not None:
        emit(label, "OPTIONS", describe_options(options))
    return result


# --------------------------------------------------------------------------
# synthetic inputs
# --------------------------------------------------------------------------
_counter = itertools.count()


def new_path(suffix, dotted=False):
    n = next(_counter)
    stem = f"f{n:05d}"
    if dotted:
        stem = f"rec.{n:05d}.v1"
    return TMP / f"{stem}{suffix}"


def write_text(text, suffix, newline=None, dotted=False):
    path = new_path(suffix, dotted=dotted)
    with open(path, "w", newline=newline) as f:
        f.write(text)
    return path


def make_saf_text(rng):
    if rng.random() < 0.5:
        return make_clean_saf_text(rng)
    n = rng.choice([0, 1, 2, 5, 17, 40, 120])
    eol = rng.choice(["\n", "\n", "\n", "\r\n", "\r"])
    lines = []
    roll = rng.random()
    if roll < 0.85:
        lines.append(f"SESAME ASCII data format (saf) v. {rng.choice([1, 1, 2, 9])}   (this line must not be modified)")
    elif roll < 0.92:
        lines.append("SESAME ASCII data format (saf) v. x")
    # else: no version line.
    fs = rng.choice(["50", "100", "128", "200", "0", "50.5", "1", "0250", "-5", ""])
    if rng.random() < 0.9:
        fs = rng.choice(["50", "100", "128", "200", "1", "0250"])
    ndat_delta = rng.choice([0, 0, 0, 0, 0, 0, 1, -1, 3, -2])
    ndat = max(n + ndat_delta, 0)
    header = [f"SAMP_FREQ = {fs}",
              f"NDAT = {ndat:010d}" if rng.random() < 0.5 else f"NDAT = {ndat}",
              "START_TIME = 2021 11 22 13 31 10.000",
              "SENSOR_TYPE = Velocity",
              "UNITS = Counts"]
    roll = rng.random()
    if roll < 0.7:
        header.append("NORTH_ROT = " + rng.choice(["0", "15", "12.75", "359.5", "400", "90.", "007", "0.000001", "1e2"]))
    elif roll < 0.8:
        header.append("NORTH_ROT = " + rng.choice(["-5", ".5", "abc", ""]))
    # else: missing
    base = rng.choice([0, 0, 0, 0, 1])
    perm = list("VNE")
    if rng.random() < 0.6:
        rng.shuffle(perm)
    roll = rng.random()
    if roll < 0.08:
        perm[rng.randrange(3)] = rng.choice("VNE")
    elif roll < 0.12:
        perm[rng.randrange(3)] = "Z"
    for i, c in enumerate(perm):
        header.append(f"CH{i + base}_ID = {c}")
    rng.shuffle(header)
    lines.extend(header)
    lines.append("####--------------------------------")
    for i in range(n):
        roll = rng.random()
        sep1 = rng.choice([" ", " ", " ", "\t"])
        sep2 = rng.choice([" ", " ", " ", "\t"])
        vals = [str(rng.randint(-40000, 40000)) for _ in range(3)]
        if roll < 0.01:
            vals[rng.randrange(3)] = "1" + "0" * 45
        elif roll < 0.02:
            vals[rng.randrange(3)] = "1.5"
        elif roll < 0.03:
            sep1 = "  "
        elif roll < 0.04:
            vals.append("77")
        elif roll < 0.05:
            vals[0] = " " + vals[0]
        lines.append(vals[0] + sep1 + vals[1] + sep2 + "".join(vals[2:3]) + ("" if len(vals) == 3 else " " + vals[3]))
    text = eol.join(lines)
    roll = rng.random()
    if roll < 0.8:
        text += eol
    elif roll < 0.9:
        text += rng.choice(["?", "|"])
    return text


def make_clean_saf_text(rng):
    n = rng.choice([1, 2, 5, 17, 40, 120])
    eol = rng.choice(["\n", "\n", "\r\n"])
    perm = list(rng.choice(["VNE", "VEN", "ENV", "NEV", "VNE"]))
    header = [f"SAMP_FREQ = {rng.choice(['50', '100', '128', '0250'])}",
              f"NDAT = {n:010d}" if rng.random() < 0.5 else f"NDAT = {n}",
              "UNITS = Counts"]
    if rng.random() < 0.8:
        header.append("NORTH_ROT = " + rng.choice(["0", "15", "12.75", "359.5", "400", "90.", "007"]))
    header.extend(f"CH{i}_ID = {c}" for i, c in enumerate(perm))
    rng.shuffle(header)
    lines = ["SESAME ASCII data format (saf) v. 1   (this line must not be modified)"]
    lines.extend(header)
    lines.append("####--------------------------------")
    for _ in range(n):
        sep = rng.choice([" ", " ", "\t"])
        lines.append(sep.join(str(rng.randint(-40000, 40000)) for _ in range(3)))
    return eol.join(lines) + eol


def make_minishark_text(rng):
    if rng.random() < 0.5:
        n = rng.choice([1, 3, 10, 33, 90])
        eol = rng.choice(["\n", "\n", "\r\n"])
        lines = ["#MiniShark file", f"#Sample rate (sps):\t{rng.choice(['128', '250', '1024'])}",
                 f"#Sample number:\t{n}", f"#Gain:\t{rng.choice(['1', '2', '8', '3'])}",
                 f"#Conversion factor:\t{rng.choice(['1', '1000', '65536', '7'])}"]
        for _ in range(n):
            lines.append("\t".join(str(rng.randint(-2 ** 23, 2 ** 23)) for _ in range(3)))
        return eol.join(lines) + eol
    n = rng.choice([0, 1, 3, 10, 33, 90])
    eol = rng.choice(["\n", "\n", "\r\n"])
    ndelta = rng.choice([0, 0, 0, 0, 0, 1, -1, 2])
    gain = rng.choice(["1", "2", "8", "16", "0", "3"])
    conv = rng.choice(["1", "1000", "65536", "0", "7"])
    fs = rng.choice(["128", "250", "1024", "0", "100"])
    if rng.random() < 0.8:
        gain = rng.choice(["1", "2", "8", "3"])
        conv = rng.choice(["1", "1000", "65536", "7"])
        fs = rng.choice(["128", "250", "1024"])
    header = ["#MiniShark file",
              f"#Sample rate (sps):\t{fs}",
              f"#Sample number:\t{max(n + ndelta, 0)}",
              f"#Gain:\t{gain}",
              f"#Conversion factor:\t{conv}"]
    if rng.random() < 0.1:
        del header[rng.randrange(1, len(header))]
    if rng.random() < 0.3:
        tail = header[1:]
        rng.shuffle(tail)
        header[1:] = tail
    lines = list(header)
    for i in range(n):
        vals = [str(rng.randint(-2 ** 23, 2 ** 23)) for _ in range(3)]
        roll = rng.random()
        if roll < 0.02:
            vals.append("5")
        elif roll < 0.04:
            vals[1] = "2.5"
        elif roll < 0.05:
            vals[2] = "9" * 50
        lines.append("\t".join(vals))
    text = eol.join(lines)
    if rng.random() < 0.85:
        text += eol
    return text


PEER_VERT = ["UP", "UP", "UP", "VER", "VER", "HNZ", "BHZ", "HLZ"]
PEER_NUM = ["000", "090", "360", "180", "270", "45", "5", "135", "225", "315", "0", "90", "999", "181", "179", "360"]
PEER_LET_N = ["HNN", "BHN", "HLN", "EHN"]
PEER_LET_E = ["HNE", "BHE", "HLE", "EHE"]


def fmt_peer_sample(rng, x):
    style = rng.choice([0, 0, 0, 1, 2])
    if style == 0:
        s = f"{x:15.7E}"
        s = s.replace("0.", ".", 1) if s.strip().startswith(("0.", "-0.")) else s
        return s
    if style == 1:
        return f"{x:15.7e}"
    return f"  {x:.5E}"


def make_peer_text(rng, key, n, dt, eol="\n", ndelta=0, broken=None):
    lines = ["PEER NGA STRONG MOTION DATABASE RECORD",
             f"Synthetic-01, 1/17/1994, Station - Name, {key}",
             "VELOCITY TIME SERIES IN UNITS OF CM/S",
             f"NPTS=   {max(n + ndelta, 0)}, DT=   {dt} SEC"]
    if broken == "nodir":
        lines[1] = "Synthetic-01, 1/17/1994, Station - Name"
    elif broken == "nonpts":
        lines[3] = f"NPTS {n} DT=   {dt} SEC"
    elif broken == "nodt":
        lines[3] = f"NPTS=   {n}, DT= {dt.replace('.', '')} SEC"
    samples = [rng.uniform(-1, 1) * 10 ** rng.randint(-6, 2) for _ in range(n)]
    row = []
    for x in samples:
        row.append(fmt_peer_sample(rng, x))
        if len(row) == 5:
            lines.append("".join(row))
            row = []
    if row:
        lines.append("".join(row))
    if broken == "badsample" and n:
        lines.append("   .5E+")
    text = eol.join(lines)
    if rng.random() < 0.9:
        text += eol
    return text


def make_peer_keys(rng):
    roll = rng.random()
    if roll < 0.45:
        keys = [rng.choice(PEER_VERT[:5]), rng.choice(PEER_NUM), rng.choice(PEER_NUM)]
    elif roll < 0.7:
        keys = [rng.choice(PEER_VERT[5:]), rng.choice(PEER_LET_N), rng.choice(PEER_LET_E)]
    elif roll < 0.8:
        keys = [rng.choice(PEER_VERT[5:]), rng.choice(PEER_LET_N + PEER_LET_E), rng.choice(PEER_LET_N + PEER_LET_E)]
    elif roll < 0.88:
        keys = [rng.choice(PEER_VERT), rng.choice(PEER_NUM + PEER_LET_N), rng.choice(PEER_NUM + PEER_LET_E)]
    elif roll < 0.94:
        keys = [rng.choice(PEER_NUM + PEER_LET_N), rng.choice(PEER_NUM), rng.choice(PEER_NUM + PEER_LET_E)]
    else:
        keys = [rng.choice(PEER_VERT), rng.choice(PEER_VERT), rng.choice(PEER_NUM + PEER_LET_E + ["XYZ", "1234"])]
    rng.shuffle(keys)
    return keys


def make_peer_set(rng):
    if rng.random() < 0.5:
        if rng.random() < 0.6:
            keys = [rng.choice(["UP", "VER"]), rng.choice(["000", "360", "10", "350", "045", "5"]),
                    rng.choice(["090", "270", "100", "80", "135"])]
        else:
            keys = [rng.choice(PEER_VERT[5:]), rng.choice(PEER_LET_N), rng.choice(PEER_LET_E)]
        rng.shuffle(keys)
        n0 = rng.choice([1, 4, 5, 11, 60, 150])
        dt0 = rng.choice([".0200", ".0050", "0.01", ".005", "1.0"])
        eol = rng.choice(["\n", "\n", "\r\n"])
        texts = []
        for key in keys:
            n = n0 if rng.random() < 0.85 else n0 + rng.choice([1, 3, 10])
            texts.append(make_peer_text(random.Random(rng.random()), key, n, dt0, eol=eol) + eol)
        return keys, texts
    keys = make_peer_keys(rng)
    n0 = rng.choice([0, 1, 4, 5, 11, 60, 150])
    dt0 = rng.choice([".0200", ".0050", "0.01", ".005", "1.0", ".02"])
    eol = rng.choice(["\n", "\n", "\n", "\r\n"])
    texts = []
    for key in keys:
        n = n0
        dt = dt0
        if rng.random() < 0.15:
            n = max(n0 + rng.choice([-3, -1, 2, 7]), 0)
        if rng.random() < 0.05:
            dt = rng.choice([".0100", ".0201", "0.0200000001"])
        ndelta = 0 if rng.random() < 0.93 else rng.choice([-1, 1, 2])
        broken = None if rng.random() < 0.93 else rng.choice(["nodir", "nonpts", "nodt", "badsample"])
        texts.append(make_peer_text(rng, key, n, dt, eol=eol, ndelta=ndelta, broken=broken))
    return keys, texts


CHANNEL_SETS = [
    ("BHE", "BHN", "BHZ"), ("HHE", "HHN", "HHZ"), ("EHZ", "EHN", "EHE"),
    ("E", "N", "Z"), ("BHN", "BHZ", "BHE"), ("HNZ", "HNE", "HNN"),
]
BAD_CHANNEL_SETS = [
    ("BHE", "BHE", "BHZ"), ("BH1", "BH2", "BHZ"), ("BHE", "BHN", "BHN"),
    ("BHZ", "HHZ", "BHN"), ("BHE", "BHN", ""), ("bhe", "bhn", "bhz"),
]


def make_traces(rng, channels, npts=None, rates=None, dtype=None, station="STA"):
    traces = []
    n0 = rng.choice([30, 64, 101, 250]) if npts is None else npts
    dtype = rng.choice(["int32", "float32", "float64"]) if dtype is None else dtype
    rate0 = rng.choice([50.0, 100.0, 128.0, 200.0, 40.0])
    nprng = np.random.default_rng(rng.randrange(2 ** 31))
    for i, ch in enumerate(channels):
        n = n0 if not isinstance(n0, (list, tuple)) else n0[i]
        if dtype == "int32":
            data = nprng.integers(-2 ** 20, 2 ** 20, size=n).astype(np.int32)
        else:
            data = (nprng.standard_normal(n) * 1000).astype(dtype)
        tr = obspy.Trace(data=data)
        tr.stats.network = "XX"
        tr.stats.station = station
        tr.stats.location = ""
        tr.stats.channel = ch
        tr.stats.sampling_rate = rate0 if rates is None else rates[i]
        tr.stats.starttime = obspy.UTCDateTime(2020, 1, 1, 0, 0, 0)
        traces.append(tr)
    return traces


def write_stream(traces, fmt, suffix, dotted=False, **kw):
    path = new_path(suffix, dotted=dotted)
    with warnings.catch_warnings():
        warnings.simplefilter("ignore")
        obspy.Stream(traces).write(str(path), format=fmt, **kw)
    return path


def as_source(rng, path, kinds=("str", "path", "bytes")):
    kind = rng.choice(kinds)
    if kind == "str":
        return str(path)
    if kind == "path":
        return pathlib.Path(path)
    if kind == "bytes":
        b = io.BytesIO(pathlib.Path(path).read_bytes())
        roll = rng.random()
        if roll < 0.3:
            b.seek(0, 2)
        elif roll < 0.4:
            b.seek(7, 0)
        return b
    if kind == "text":
        with open(path, "r", newline="") as f:
            s = io.StringIO(f.read())
        roll = rng.random()
        if roll < 0.3:
            s.seek(0, 2)
        elif roll < 0.4:
            s.seek(3, 0)
        return s
    raise AssertionError(kind)


class MyStr(str):
    pass


class MyDict(dict):
    pass


class MyList(list):
    pass


def pick_degrees(rng):
    return rng.choice([None, None, None, 0, 15, 12.5, -30.0, 375, 720.0, True,
                       np.float64(33.25), np.float32(20.5), np.int64(45),
                       "15", float("nan"), float("inf")])


def pick_options(rng, formats=("MSEED", "SAC", "GCF")):
    fmt = rng.choice(formats)
    choices = [
        None, None, None,
        {}, {"format": fmt}, {"format": fmt.lower()},
        {"format": "SAC", "byteorder": "big"},
        {"format": fmt, "headonly": True},
        {"format": fmt, "dtype": "float64"},
        {"starttime": obspy.UTCDateTime(2020, 1, 1, 0, 0, 0, 100000)},
        {"format": "NOPE"},
        MyDict({"format": fmt}),
        collections.OrderedDict([("format", fmt)]),
        collections.UserDict({"format": fmt}),
        types.MappingProxyType({"format": fmt}),
        [("format", fmt)],
        (("format", fmt),),
        {1: 2},
        "format",
        0,
    ]
    return rng.choice(choices)


# --------------------------------------------------------------------------
# sections
# --------------------------------------------------------------------------
def section_regex(rng):
    names = ["saf_npts_exec", "saf_fs_exec", "saf_row_exec", "saf_v_ch_exec",
             "saf_n_ch_exec", "saf_e_ch_exec", "saf_north_rot_exec",
             "saf_version_exec", "mshark_npts_exec", "mshark_fs_exec",
             "mshark_gain_exec", "mshark_conversion_exec", "mshark_row_exec",
             "peer_direction_exec", "peer_npts_exec", "peer_dt_exec",
             "peer_sample_exec", "azimuth_exec", "geopsy_line_exec"]
    fragments = [
        "NDAT = ", "SAMP_FREQ = ", "CH", "_ID = ", "V", "N", "E", "NORTH_ROT = ",
        "SESAME ASCII data format (saf) v. ", "#Sample number:\t",
        "#Sample rate (sps):\t", "#Gain:\t", "#Conversion factor:\t",
        ", ", "UP", "VER", "HNZ", "BHE", "FHN", "XLZ", "NPTS=", "DT=", " SEC",
        "azimuth ", " deg | hvsr curve ", "\n", "\n", "\r\n", "\r", "?", "|",
        "\t", " ", "  ", "-", ".", "e", "E", "+", ",", "0", "1", "7", "12",
        "090", "360", "1234", "45000", "-17", "3.25", ".5", "1e-3", "2.5E+01",
        "-.12345E-02", "#", "x", "=",
    ]
    corpus = []
    for _ in range(700):
        k = rng.randint(1, 14)
        corpus.append("".join(rng.choice(fragments) for _ in range(k)))
    for _ in range(60):
        corpus.append(make_saf_text(rng)[:600])
        corpus.append(make_minishark_text(rng)[:400])
        keys, texts = make_peer_set(rng)
        corpus.append(texts[0][:500])
    # near misses around every pattern.
    terms = ["\n", "\r", "\r\n", "?", "|", "", " ", "x", "\\n", ".", "\t"]
    ints = ["0", "7", "12", "007", "45000", "", "-3", "--4", "1.5", "1e3", "123456789012", "\u0663"]
    seps = [" ", "\t", "  ", "\n", ",", "", "\r"]
    letters = "FGDCESHBLMNZXA"
    reals = ["3.25", ".5", "5.", "5", "-1.5", "1.5e3", "", "1..2", "0.0", "12.75"]
    samples = ["-.12345E-02", ".5E+", "1.5e3", "1.5", ".E1", "-1.e5", "1.0E+01", "--.5e-1", ".5e--1", "5e3"]
    pick = rng.choice
    for _ in range(2500):
        pre = pick(["", "", " ", "x", "#", "\n", "1"])
        kind = rng.randrange(14)
        if kind == 0:
            t = f"{pre}{pick(['NDAT', 'NDAT ', 'ndat'])} = {pick(ints)}{pick(terms)}"
        elif kind == 1:
            t = f"{pre}SAMP_FREQ{pick([' = ', '=', ' =  '])}{pick(ints + reals)}{pick(terms)}"
        elif kind == 2:
            t = pick(["", "\n", " ", "a\n"]) + pick(seps[:3]).join(pick(ints) for _ in range(pick([2, 3, 3, 3, 4]))) + pick(terms)
        elif kind == 3:
            sep = pick(seps)
            t = pre + sep.join(pick(ints) for _ in range(pick([2, 3, 3, 4]))) + pick(terms) + sep.join(pick(ints) for _ in range(3)) + pick(terms)
        elif kind == 4:
            t = f"{pre}CH{pick(['0', '1', '2', '3', '12', '', 'x'])}_ID{pick([' = ', '=', '  = '])}{pick(['V', 'N', 'E', 'Z', 'v', 'VN', ''])}{pick(terms)}"
        elif kind == 5:
            t = f"{pre}NORTH_ROT{pick([' = ', '=', ' = -'])}{pick(reals + ints)}{pick(terms)}"
        elif kind == 6:
            t = f"{pre}SESAME ASCII data format {pick(['(saf)', 'saf', '(SAF)'])} v{pick(['.', '', '..', 'x'])} {pick(['1', '2', '12', '', 'x'])}{pick(terms)}"
        elif kind == 7:
            kw = pick(["Sample number", "Sample rate (sps)", "Gain", "Conversion factor", "Sample  number",
                       "Sample rate sps", "Sample\\ number", "gain", "Sample rate (sps"])
            t = f"{pre}#{kw}{pick([':', ''])}{pick(['\t', ' ', '\t\t'])}{pick(ints)}{pick(terms)}"
        elif kind == 8:
            tok = pick(["UP", "VER", "UPX", "up", "VERT", "".join(pick("0123456789") for _ in range(rng.randrange(6))),
                        "".join(pick(letters) for _ in range(pick([2, 3, 3, 3, 4]))), "09a", "HN"])
            t = f"{pre}Name{pick([', ', ',', ',  ', ' '])}{tok}{pick(terms)}"
        elif kind == 9:
            t = f"{pre}NPTS={pick(['', ' ', '   ', '\t', '\n'])}{pick(ints)}{pick([',', '', ' ,', ';'])} DT={pick(['', ' ', '   '])}{pick(reals)}{pick([' SEC', 'SEC', '\n', ''])}"
        elif kind == 10:
            t = pre + pick(["", " ", "  "]).join(pick(samples) for _ in range(rng.randint(1, 6))) + pick(terms)
        elif kind == 11:
            t = f"{pre}azimuth {pick(reals + ['1e-5', '3.5E+2'])} deg | hvsr curve {pick(ints)}"
        elif kind == 12:
            t = pre + "\t".join(pick(reals) for _ in range(pick([3, 4, 4, 5]))) + pick(terms)
        else:
            t = pre + "".join(pick(fragments) for _ in range(rng.randint(1, 6)))
        corpus.append(t)
    for p in sorted(INPUT.glob("peer/*")) + sorted(INPUT.glob("saf/*")):
        with open(p, "r") as f:
            corpus.append(f.read(3000))
    for name in names:
        pat = getattr(hvregex, name)
        emit("regex", name, "groups", pat.groups, "flags", pat.flags)
        h = hashlib.sha256()
        for s in corpus:
            m = pat.search(s)
            h.update(repr(None if m is None else (m.span(), m.groups())).encode())
            h.update(repr([(x.span(), x.groups()) for x in pat.finditer(s)]).encode())
            m = pat.match(s)
            h.update(repr(None if m is None else (m.span(), m.groups())).encode())
        emit("regex", name, h.hexdigest())
        # data_wrangler must use the very same compiled objects it imports.
        if hasattr(dw, name):
            emit("regex", name, "shared", getattr(dw, name) is pat)


def section_module_surface():
    emit("surface", "keys", list(dw.READ_FUNCTION_DICT.keys()))
    for k, v in dw.READ_FUNCTION_DICT.items():
        emit("surface", k, v.__name__, v is getattr(dw, "_read_" + k))
    emit("surface", "public", hvsrpy.read is dw.read, hvsrpy.read_single is dw.read_single)
    for name in ["_arrange_traces", "_check_npts", "_quiet_obspy_read", "read", "read_single",
                 "_read_mseed", "_read_saf", "_read_minishark", "_read_sac", "_read_gcf", "_read_peer"]:
        f = getattr(dw, name)
        import inspect
        emit("surface", name, str(inspect.signature(f)))


def section_helpers(rng):
    for a, b in [(3, 3), (3, 4), (0, 0), (5, 2), ("3", 3), (3.0, 3), (None, 0)]:
        call(f"check_npts({a!r},{b!r})", dw._check_npts, a, b)
    # _arrange_traces directly with 0..4 traces in assorted orders.
    for i in range(40):
        k = rng.choice([0, 1, 2, 3, 3, 3, 3, 3, 4])
        chans = [rng.choice(["BHE", "BHN", "BHZ", "HHE", "E", "N", "Z", "BH1", "", "bhz"]) for _ in range(k)]
        if rng.random() < 0.5 and k == 3:
            chans = list(rng.choice(CHANNEL_SETS))
            rng.shuffle(chans)
        traces = make_traces(rng, chans)
        container = rng.choice(["stream", "list", "tuple", "iter"])
        arg = {"stream": obspy.Stream(traces), "list": traces, "tuple": tuple(traces), "iter": iter(traces)}[container]
        call(f"arrange[{i}] {container} {chans}", dw._arrange_traces, arg)
    # _quiet_obspy_read passes everything through and silences warnings.
    p = INPUT / "mseed_combined" / "ut.stn11.a2_c50.mseed"
    r = call("quiet_read", lambda: [str(t.id) + str(t.stats.npts) for t in dw._quiet_obspy_read(str(p), format="MSEED", headonly=True)])
    call("quiet_read_fail", lambda: dw._quiet_obspy_read(str(TMP / "missing.mseed")))


def section_real_files(rng):
    mc = INPUT / "mseed_combined" / "ut.stn11.a2_c50.mseed"
    mi = [INPUT / "mseed_individual" / f"ut.stn11.a2_c50_bh{c}.mseed" for c in "enz"]
    sb = [INPUT / "sac_big_endian" / f"ut.stn11.a2_c50_{c}.sac" for c in "enz"]
    sl = [INPUT / "sac_little_endian" / f"ut.stn11.a2_c50_{c}.sac" for c in "enz"]
    saf = INPUT / "saf" / "mt_20211122_133110.saf"
    gcf = INPUT / "gcf" / "sample.gcf"
    msh = INPUT / "minishark" / "0003_181115_0441.minishark"
    peer = [INPUT / "peer" / f"rsn942_northr_alh{c}.vt2" for c in ["090", "360", "-up"]]
    singles = [("mc", mc), ("saf", saf), ("gcf", gcf), ("msh", msh)]
    triples = [("mi", mi), ("sb", sb), ("sl", sl), ("peer", peer)]
    for name, p in singles:
        for kind in ("str", "path"):
            src = str(p) if kind == "str" else p
            call(f"real read_single {name} {kind}", dw.read_single, src)
        call(f"real read_single {name} dfn", dw.read_single, p, degrees_from_north=27.5)
    for name, ps in triples:
        for perm in itertools.permutations(range(3)):
            src = [ps[i] for i in perm]
            call(f"real read_single {name} {perm}", dw.read_single, src)
        call(f"real read_single {name} tuple str", dw.read_single, tuple(str(p) for p in ps), degrees_from_north=-10)
    # every private reader on every real input.
    for rname, reader in dw.READ_FUNCTION_DICT.items():
        for name, p in singles:
            call(f"real {rname} on {name}", reader, p)
        for name, ps in triples:
            call(f"real {rname} on {name}", reader, list(ps))
    # in-memory versions.
    for name, p in [("mc", mc), ("gcf", gcf)]:
        b = io.BytesIO(p.read_bytes())
        call(f"real bytes {name}", dw.read_single, b, sources=b)
        call(f"real bytes {name} again", dw.read_single, b, sources=b)
    for name, ps in [("sb", sb), ("sl", sl), ("mi", mi)]:
        bs = [io.BytesIO(p.read_bytes()) for p in ps]
        call(f"real bytes {name}", dw.read_single, bs, sources=bs)
        call(f"real bytes {name} again", dw.read_single, bs, sources=bs)
        opts = {"format": "SAC"}
        call(f"real bytes {name} sac opts", dw.read_single, bs, obspy_read_kwargs=opts, sources=bs, options=opts)
        call(f"real bytes {name} sac opts again", dw.read_single, bs, obspy_read_kwargs=opts, sources=bs, options=opts)
    s = io.StringIO(saf.read_text())
    call("real text saf", dw.read_single, s, sources=s)
    call("real text saf again", dw.read_single, s, sources=s)
    ss = [io.StringIO(p.read_text()) for p in peer]
    call("real text peer", dw.read_single, ss, sources=ss)
    call("real text peer again", dw.read_single, ss[::-1], sources=ss)
    # hvsrpy.read over everything at once.
    everything = [mc, mi, [saf], tuple(sb), sl, gcf, peer, [mc]]
    call("real read all", hvsrpy.read, everything)
    call("real read all dfn list", hvsrpy.read, everything, degrees_from_north=[1, 2., None, 4, 5, 6, None, 361])
    opts = {"format": "MSEED"}
    call("real read opts once", hvsrpy.read, [mc, mi, [mc]], obspy_read_kwargs=opts, options=opts)


def section_saf(rng, count):
    for i in range(count):
        text = make_saf_text(rng)
        dfn = pick_degrees(rng) if rng.random() < 0.4 else None
        mode = rng.choice(["file", "file", "text", "filecrlf"])
        if mode == "text":
            src = io.StringIO(text)
            if rng.random() < 0.4:
                src.seek(rng.choice([0, 5, len(text)]), 0)
        else:
            path = write_text(text, ".saf", newline="" if mode == "filecrlf" else None, dotted=rng.random() < 0.2)
            src = rng.choice([str, pathlib.Path, MyStr])(path)
        entry = rng.choice(["single", "single", "reader", "read", "listed"])
        label = f"saf[{i}] {mode} {entry}"
        if entry == "single":
            opts = pick_options(rng) if rng.random() < 0.3 else None
            call(label, dw.read_single, src, obspy_read_kwargs=opts, degrees_from_north=dfn, sources=src, options=opts)
        elif entry == "reader":
            call(label, dw._read_saf, src, degrees_from_north=dfn, sources=src)
            call(label + " minishark", dw._read_minishark, src, degrees_from_north=dfn, sources=src)
        elif entry == "read":
            call(label, hvsrpy.read, [src, [src]], degrees_from_north=dfn if not isinstance(dfn, str) else None, sources=src)
        else:
            arg = rng.choice([[src, src], (src, src, src), []])
            call(label, dw._read_saf, arg, degrees_from_north=dfn)
            call(label + " rs", dw.read_single, arg, degrees_from_north=dfn)


def section_minishark(rng, count):
    for i in range(count):
        text = make_minishark_text(rng)
        dfn = pick_degrees(rng) if rng.random() < 0.4 else None
        mode = rng.choice(["file", "text"])
        if mode == "text":
            src = io.StringIO(text)
            if rng.random() < 0.4:
                src.seek(0, 2)
        else:
            path = write_text(text, ".minishark", dotted=rng.random() < 0.2)
            src = rng.choice([str, pathlib.Path])(path)
        entry = rng.choice(["single", "single", "reader", "read", "listed"])
        label = f"minishark[{i}] {mode} {entry}"
        if entry == "single":
            call(label, dw.read_single, src, degrees_from_north=dfn, sources=src)
        elif entry == "reader":
            call(label, dw._read_minishark, src, obspy_read_kwargs={"x": 1}, degrees_from_north=dfn, sources=src)
            call(label + " saf", dw._read_saf, src, degrees_from_north=dfn, sources=src)
        elif entry == "read":
            call(label, hvsrpy.read, (src,), degrees_from_north=[dfn], sources=src)
        else:
            arg = rng.choice([[src, src], (src,), []])
            call(label, dw._read_minishark, arg, degrees_from_north=dfn)
            call(label + " gcf", dw._read_gcf, arg, degrees_from_north=dfn)


def section_peer(rng, count):
    for i in range(count):
        keys, texts = make_peer_set(rng)
        dfn = pick_degrees(rng) if rng.random() < 0.35 else None
        mode = rng.choice(["file", "file", "text", "mixed"])
        srcs = []
        for t in texts:
            m = mode if mode != "mixed" else rng.choice(["file", "text"])
            if m == "text":
                s = io.StringIO(t)
                if rng.random() < 0.3:
                    s.seek(0, 2)
                srcs.append(s)
            else:
                path = write_text(t, ".vt2", newline="", dotted=rng.random() < 0.2)
                srcs.append(rng.choice([str, pathlib.Path])(path))
        roll = rng.random()
        if roll < 0.06:
            srcs = srcs[:2]
        elif roll < 0.12:
            srcs = srcs + [srcs[0]]
        elif roll < 0.15:
            srcs = srcs[:1]
        container = rng.choice([list, list, tuple, MyList])
        arg = container(srcs)
        entry = rng.choice(["single", "single", "reader", "read"])
        label = f"peer[{i}] {keys} {mode} {entry} n={len(srcs)}"
        if entry == "single":
            opts = pick_options(rng) if rng.random() < 0.3 else None
            call(label, dw.read_single, arg, obspy_read_kwargs=opts, degrees_from_north=dfn, sources=arg, options=opts)
            if rng.random() < 0.3:
                call(label + " repeat", dw.read_single, arg, obspy_read_kwargs=opts, degrees_from_north=dfn, sources=arg, options=opts)
        elif entry == "reader":
            call(label, dw._read_peer, arg, degrees_from_north=dfn, sources=arg)
            if len(srcs) >= 1:
                call(label + " one", dw._read_peer, srcs[0], degrees_from_north=dfn)
        else:
            call(label, hvsrpy.read, [arg, arg], degrees_from_north=(dfn, None), sources=arg)


def section_obspy_formats(rng, count):
    for i in range(count):
        good = rng.random() < 0.7
        chans = list(rng.choice(CHANNEL_SETS if good else BAD_CHANNEL_SETS))
        rng.shuffle(chans)
        roll = rng.random()
        npts = None
        rates = None
        if roll < 0.08:
            n = rng.choice([40, 80])
            npts = [n, n + rng.choice([1, 5]), n]
        elif roll < 0.14:
            rates = [100.0, 50.0, 100.0]
        elif roll < 0.18:
            rates = [100.0, 100.0 + 5e-7, 100.0]
        k = rng.choice([3, 3, 3, 3, 3, 3, 2, 4, 1])
        if k != 3:
            chans = (chans + ["BHZ", "BHE"])[:k]
            if npts is not None:
                npts = (npts + [npts[0]])[:k]
            if rates is not None:
                rates = (rates + [rates[0]])[:k]
        fmt = rng.choice(["mseed_combined", "mseed_individual", "sac_little", "sac_big", "sac_mixed"])
        dtype = rng.choice(["int32", "float32", "float64"]) if fmt.startswith("mseed") else "float32"
        traces = make_traces(rng, chans, npts=npts, rates=rates, dtype=dtype,
                             station=rng.choice(["STA", "S1", "ABCDE"]))
        dotted = rng.random() < 0.2
        kinds = rng.choice([("str",), ("path",), ("bytes",), ("str", "path", "bytes")])
        if fmt == "mseed_combined":
            path = write_stream(traces, "MSEED", ".mseed", dotted=dotted)
            src = as_source(rng, path, kinds)
            if rng.random() < 0.15:
                src = [src]
        elif fmt == "mseed_individual":
            paths = []
            for tr in traces:
                group = [tr]
                if rng.random() < 0.05:
                    group = [tr, traces[0]]
                paths.append(write_stream(group, "MSEED", ".mseed", dotted=dotted))
            src = rng.choice([list, tuple])(as_source(rng, p, kinds) for p in paths)
        else:
            paths = []
            for tr in traces:
                bo = {"sac_little": 0, "sac_big": 1}.get(fmt, rng.choice([0, 1]))
                paths.append(write_stream([tr], "SAC", ".sac", dotted=dotted, byteorder=bo))
            src = rng.choice([list, tuple])(as_source(rng, p, kinds) for p in paths)
        dfn = pick_degrees(rng) if rng.random() < 0.4 else None
        opts = pick_options(rng) if rng.random() < 0.45 else None
        entry = rng.choice(["single", "single", "single", "reader", "read", "sequence"])
        label = f"obspy[{i}] {fmt} {chans} {entry}"
        if entry == "single":
            call(label, dw.read_single, src, obspy_read_kwargs=opts, degrees_from_north=dfn, sources=src, options=opts)
        elif entry == "reader":
            for rname in ("mseed", "sac", "gcf"):
                call(f"{label} {rname}", dw.READ_FUNCTION_DICT[rname], src, obspy_read_kwargs=opts,
                     degrees_from_north=dfn, sources=src, options=opts)
        elif entry == "read":
            call(label, hvsrpy.read, [src, src], obspy_read_kwargs=opts, degrees_from_north=dfn if not isinstance(dfn, str) else 5,
                 sources=src, options=opts)
        else:
            # the same (caller-kept) option dict across a failing and a passing call.
            shared = rng.choice([{"format": "SAC"}, {"format": "MSEED"}, {}, {"format": "SAC", "byteorder": "big"}])
            bogus = write_text("not a seismic file\n", ".txt")
            call(label + " s1", dw._read_sac, [str(bogus)] * 3, obspy_read_kwargs=shared, options=shared)
            call(label + " s2", dw.read_single, src, obspy_read_kwargs=shared, degrees_from_north=dfn, sources=src, options=shared)
            call(label + " s3", dw._read_sac, src, obspy_read_kwargs=shared, degrees_from_north=dfn, sources=src, options=shared)
            call(label + " s4", dw._read_mseed, src, obspy_read_kwargs=shared, degrees_from_north=dfn, sources=src, options=shared)
            call(label + " s5", dw.read_single, src, obspy_read_kwargs=shared, sources=src, options=shared)


def section_read_broadcast(rng, count):
    # a small pool of good recordings of different kinds.
    pool = []
    for _ in range(3):
        traces = make_traces(rng, list(rng.choice(CHANNEL_SETS)), dtype="int32")
        pool.append(("mc", write_stream(traces, "MSEED", ".mseed")))
        pool.append(("sac", [write_stream([tr], "SAC", ".sac", byteorder=rng.choice([0, 1])) for tr in traces]))
        pool.append(("saf", write_text(make_good_saf(rng), ".saf")))
        keys = ["UP", rng.choice(["000", "045", "350"]), rng.choice(["090", "135", "260"])]
        pool.append(("peer", [write_text(make_peer_text(rng, k, 30, ".0100"), ".vt2") for k in keys]))
    bogus = write_text("garbage\n1 2 3\n", ".dat")
    for i in range(count):
        k = rng.choice([0, 1, 2, 3, 4])
        fnames = []
        for _ in range(k):
            kind, p = rng.choice(pool)
            if isinstance(p, list):
                entry = rng.choice([list, tuple])(rng.choice([str, pathlib.Path])(x) for x in p)
            else:
                entry = rng.choice([str, pathlib.Path])(p)
                if rng.random() < 0.3:
                    entry = rng.choice([list, tuple])([entry])
            fnames.append(entry)
        if rng.random() < 0.1 and fnames:
            fnames[rng.randrange(len(fnames))] = rng.choice([str(bogus), [str(bogus)], [], [[]], None, 98765])
        roll = rng.random()
        if roll < 0.08:
            fnames = tuple(fnames)
        elif roll < 0.14 and fnames:
            fnames = fnames[0]        # not wrapped -> warning (or not, for lists)
        elif roll < 0.17:
            fnames = iter(fnames)
        n = k
        # reader options
        orolls = rng.random()
        made_opts = None
        if orolls < 0.4:
            opts = None
        elif orolls < 0.6:
            opts = made_opts = rng.choice([{}, {"format": "MSEED"}, {"format": "SAC"}, {"headonly": False}])
        elif orolls < 0.8:
            m = rng.choice([n, n, n + 1, max(n - 1, 0)])
            opts = made_opts = [rng.choice([None, {}, {"format": "SAC"}, {"format": "MSEED"}]) for _ in range(m)]
            if rng.random() < 0.3:
                opts = tuple(opts)
        elif orolls < 0.9:
            made_opts = [rng.choice([None, {}, {"format": "SAC"}]) for _ in range(n + 1)]
            opts = iter(made_opts)
        else:
            opts = rng.choice([MyDict(), collections.UserDict(), "ab", 3, itertools.repeat({})])
            made_opts = opts if not isinstance(opts, itertools.repeat) else None
        # orientations
        drolls = rng.random()
        dgen = None
        if drolls < 0.35:
            dfn = None
        elif drolls < 0.55:
            dfn = rng.choice([0, 10, 22.5, -45, 400.0, True, np.float64(12.), np.float32(12.), np.int32(3)])
        elif drolls < 0.8:
            m = rng.choice([n, n, n + 2, max(n - 1, 0)])
            dfn = [rng.choice([None, 0, 33, 181.5, -1.]) for _ in range(m)]
            dfn = rng.choice([list, tuple, np.array])(dfn) if None not in dfn else rng.choice([list, tuple])(dfn)
        elif drolls < 0.92:
            dgen = iter([float(x) for x in range(n + 2)])
            dfn = dgen
        else:
            dfn = rng.choice(["12", {"a": 1}, itertools.count(5), np.arange(n + 1) * 10.])
        label = f"read[{i}] k={k}"
        res = call(label, hvsrpy.read, fnames, obspy_read_kwargs=opts, degrees_from_north=dfn,
                   options=made_opts)
        if isinstance(opts, type(iter([]))):
            emit(label, "opts-iter-left", len(list(opts)))
        if dgen is not None:
            emit(label, "dfn-iter-left", list(dgen))
        if isinstance(fnames, type(iter([]))):
            emit(label, "fnames-iter-left", len(list(fnames)))
        if isinstance(res, list):
            # returned recordings are independent of each other.
            ids = {id(r.ns.amplitude) for r in res} | {id(r.meta) for r in res}
            emit(label, "independent", len(ids) == 2 * len(res))


def make_good_saf(rng):
    n = rng.choice([20, 45])
    lines = ["SESAME ASCII data format (saf) v. 1   (this line must not be modified)",
             "SAMP_FREQ = 100", f"NDAT = {n}", f"NORTH_ROT = {rng.choice(['0', '12.5', '300'])}",
             "CH0_ID = V", "CH1_ID = N", "CH2_ID = E", "####------"]
    for _ in range(n):
        lines.append(" ".join(str(rng.randint(-999, 999)) for _ in range(3)))
    return "\n".join(lines) + "\n"


def section_unusual_sources(rng):
    traces = make_traces(rng, ["BHE", "BHN", "BHZ"], dtype="int32")
    mc = write_stream(traces, "MSEED", ".mseed")
    sacs = [write_stream([tr], "SAC", ".sac", byteorder=1) for tr in traces]
    saf = write_text(make_good_saf(rng), ".saf")
    peers = [write_text(make_peer_text(rng, k, 12, ".0100"), ".vt2") for k in ["VER", "010", "100"]]
    cwd = os.getcwd()
    sources = [
        ("none", None), ("int", 12345), ("float", 1.5), ("bytes-name", os.fsencode(str(mc))),
        ("empty-str", ""), ("dir", str(TMP)), ("missing", str(TMP / "nope.mseed")),
        ("stringio-empty", io.StringIO("")), ("bytesio-empty", io.BytesIO(b"")),
        ("stringio-garbage", io.StringIO("hello\n1 2 3\n")), ("bytesio-garbage", io.BytesIO(b"\x00" * 600)),
        ("dict", {"a": 1}), ("set", {str(mc)}), ("nested", [[str(mc)]]), ("empty-list", []),
        ("list-none", [None, None, None]), ("list-mixed", [str(sacs[0]), pathlib.Path(sacs[1]), io.BytesIO(pathlib.Path(sacs[2]).read_bytes())]),
        ("mystr", MyStr(mc)), ("purepath", pathlib.PurePosixPath(mc)),
        ("relative", os.path.relpath(str(mc), cwd)), ("relative-saf", pathlib.Path(os.path.relpath(str(saf), cwd))),
        ("peer-mixed", (str(peers[0]), pathlib.Path(peers[1]), io.StringIO(pathlib.Path(peers[2]).read_text()))),
        ("sac-stringio", [io.StringIO("x"), io.StringIO("y"), io.StringIO("z")]),
        ("peer-bytesio", [io.BytesIO(pathlib.Path(p).read_bytes()) for p in peers]),
        ("closed-bytesio", _closed(io.BytesIO(pathlib.Path(mc).read_bytes()))),
        ("closed-stringio", _closed(io.StringIO("abc"))),
        ("list-closed", [_closed(io.BytesIO(b"abc"))] * 3),
        ("generator", (x for x in [str(mc)])),
    ]
    for name, src in sources:
        call(f"unusual read_single {name}", dw.read_single, src, sources=src if not isinstance(src, (dict, set, types.GeneratorType)) else None)
        for rname, reader in dw.READ_FUNCTION_DICT.items():
            call(f"unusual {rname} {name}", reader, src)
        call(f"unusual read {name}", hvsrpy.read, src)
        call(f"unusual read [{name}]", hvsrpy.read, [src])


def _closed(f):
    f.close()
    return f


def section_seams(rng):
    """The module-level collaborators are looked up when called."""
    traces = make_traces(rng, ["BHZ", "BHE", "BHN"], dtype="int32")
    mc = write_stream(traces, "MSEED", ".mseed")
    sacs = [write_stream([tr], "SAC", ".sac", byteorder=i % 2) for i, tr in enumerate(traces)]
    saf = write_text(make_good_saf(rng), ".saf")
    msh = write_text("#Sample rate (sps):\t100\n#Sample number:\t2\n#Gain:\t2\n#Conversion factor:\t4\n1\t2\t3\n4\t5\t6\n", ".minishark")
    peers = [write_text(make_peer_text(rng, k, 12, ".0100"), ".vt2") for k in ["UP", "350", "080"]]
    inputs = [("mc", str(mc)), ("sacs", [str(p) for p in sacs]), ("saf", str(saf)), ("msh", str(msh)),
              ("peers", [str(p) for p in peers]), ("bogus", str(TMP / "void"))]
    trace = []

    def spy(name, original):
        def wrapper(*args, **kwargs):
            trace.append((name, [type(a).__name__ for a in args],
                          [(len(a) if hasattr(a, "__len__") else None) for a in args],
                          sorted((k, repr(v)) for k, v in kwargs.items())))
            return original(*args, **kwargs)
        return wrapper

    seams = ["_arrange_traces", "_check_npts", "_quiet_obspy_read", "read_single"]
    originals = {s: getattr(dw, s) for s in seams}
    try:
        for s in seams:
            setattr(dw, s, spy(s, originals[s]))
        dw.open = spy("open", open)
        real_obspy_read = obspy.read
        obspy.read = spy("obspy.read", real_obspy_read)
        for name, src in inputs:
            trace.clear()
            call(f"seam {name}", hvsrpy.read, [src])
            for t in trace:
                emit(f"seam {name}", "TRACE", *t)
    finally:
        for s in seams:
            setattr(dw, s, originals[s])
        del dw.open
        obspy.read = real_obspy_read

    # the reader table is consulted on every call.
    saved = dict(dw.READ_FUNCTION_DICT)
    try:
        del dw.READ_FUNCTION_DICT["peer"]
        call("table without peer (bogus)", dw.read_single, str(TMP / "void"))
        call("table without peer (mc)", dw.read_single, str(mc))
        dw.READ_FUNCTION_DICT.clear()
        call("empty table", dw.read_single, str(mc))
        dw.READ_FUNCTION_DICT["peer"] = saved["saf"]
        call("saf named peer (bogus)", dw.read_single, str(mc))
        call("saf named peer (saf)", dw.read_single, str(saf))
        dw.READ_FUNCTION_DICT.clear()
        for k in reversed(list(saved)):
            dw.READ_FUNCTION_DICT[k] = saved[k]
        call("reversed table (sacs)", dw.read_single, [str(p) for p in sacs])
        call("reversed table (mc)", dw.read_single, str(mc))
    finally:
        dw.READ_FUNCTION_DICT.clear()
        dw.READ_FUNCTION_DICT.update(saved)
    emit("table restored", list(dw.READ_FUNCTION_DICT))

    # a failing collaborator and then the same call again.
    class Boom(RuntimeError):
        pass

    state = {"n": 0}
    real = obspy.read

    def flaky(*args, **kwargs):
        state["n"] += 1
        if state["n"] in (1, 2, 5):
            raise Boom(f"injected {state['n']}")
        return real(*args, **kwargs)

    obspy.read = flaky
    try:
        opts = {"format": "SAC"}
        for j in range(3):
            call(f"flaky sac {j}", dw._read_sac, [str(p) for p in sacs], obspy_read_kwargs=opts, options=opts)
        state["n"] = 0
        for j in range(2):
            call(f"flaky read_single {j}", dw.read_single, str(mc))
    finally:
        obspy.read = real

    class Interrupt(KeyboardInterrupt):
        pass

    def interrupting(*args, **kwargs):
        raise Interrupt("stop")

    obspy.read = interrupting
    try:
        call("interrupt read_single", dw.read_single, str(mc))
        call("interrupt sac", dw._read_sac, [str(p) for p in sacs])
    finally:
        obspy.read = real
    call("after interrupt", dw.read_single, str(mc))


def section_result_independence(rng):
    traces = make_traces(rng, ["BHZ", "BHE", "BHN"], dtype="float64")
    mc = write_stream(traces, "MSEED", ".mseed")
    names = [str(mc)]
    out = call("indep read", hvsrpy.read, names)
    names.append("later")
    emit("indep", describe_value(out))
    a = call("indep a", dw.read_single, str(mc))
    b = call("indep b", dw.read_single, str(mc))
    a.ns.amplitude[:] = 0
    a.meta["file name(s)"] = "changed"
    emit("indep", describe_value(b))
    sacs = [str(write_stream([tr], "SAC", ".sac")) for tr in traces]
    r = call("indep sac", dw.read_single, sacs)
    sacs[0] = "changed"
    emit("indep", describe_value(r), r.meta["file name(s)"] is sacs)


def main():
    if "--verbose" in sys.argv:
        print(f"hvsrpy imported from {os.path.dirname(hvsrpy.__file__)}", file=sys.stderr)
    try:
        section_module_surface()
        section_regex(random.Random(1))
        section_helpers(random.Random(2))
        section_real_files(random.Random(3))
        section_saf(random.Random(4), 160)
        section_minishark(random.Random(5), 90)
        section_peer(random.Random(6), 170)
        section_obspy_formats(random.Random(7), 170)
        section_read_broadcast(random.Random(8), 140)
        section_unusual_sources(random.Random(9))
        section_seams(random.Random(10))
        section_result_independence(random.Random(11))
    finally:
        shutil.rmtree(TMP, ignore_errors=True)
        if _dump is not None:
            _dump.close()
    print("DIGEST " + _sha.hexdigest())


if __name__ == "__main__":
    main()
