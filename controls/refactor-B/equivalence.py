"""Equivalence harness for the window_rejection / statistics refactoring.

Run with the interpreter of the project; hvsrpy is imported from the tree
this script lives in. Prints deterministic sha256 digests of

* RESULTS : every return value, every mutated object, every exception
            (type and message), meta contents (with key order), aliasing
            facts, log records (formatted at emit time), calls made through
            the plotting / interaction seams of manual_window_rejection.
* WARNINGS: every warning (category and message) issued while the cases ran,
            in order, with the "always" filter.

The two digests are printed separately; RESULTS is the contract, WARNINGS is
reported as supplementary evidence.
"""

import os
import sys
import hashlib
import logging
import pathlib
import warnings

os.environ.setdefault("MPLBACKEND", "Agg")
HERE = pathlib.Path(__file__).resolve().parent
sys.path.insert(0, str(HERE.parent))

import numpy as np  # noqa: E402
import matplotlib  # noqa: E402
matplotlib.use("Agg")
import matplotlib.pyplot as mpl_plt  # noqa: E402

import hvsrpy  # noqa: E402
from hvsrpy import statistics as st  # noqa: E402
from hvsrpy import window_rejection as wr  # noqa: E402
from hvsrpy import interact  # noqa: E402

assert pathlib.Path(hvsrpy.__file__).resolve().parent.parent == HERE.parent, hvsrpy.__file__

VERBOSE = "-v" in sys.argv


# --------------------------------------------------------------------------
# canonical serialisation
# --------------------------------------------------------------------------

def canon(obj, depth=0):
    """Deterministic, bit-exact text form of ``obj``."""
    if depth > 12:
        return "<deep>"
    if obj is None or isinstance(obj, (bool, str, bytes)):
        return f"{type(obj).__name__}:{obj!r}"
    if isinstance(obj, np.ndarray):
        data = np.ascontiguousarray(obj)
        if data.dtype == object:
            body = canon(data.tolist(), depth+1)
        else:
            body = hashlib.sha256(data.tobytes()).hexdigest()
        return f"ndarray[{obj.dtype.str},{obj.shape}]:{body}"
    if isinstance(obj, np.generic):
        return f"{type(obj).__name__}:{np.asarray(obj).tobytes().hex()}"
    if isinstance(obj, int):
        return f"int:{obj}"
    if isinstance(obj, float):
        return f"float:{obj.hex()}"
    if isinstance(obj, complex):
        return f"complex:{obj.real.hex()},{obj.imag.hex()}"
    if isinstance(obj, (list, tuple)):
        inner = ",".join(canon(o, depth+1) for o in obj)
        return f"{type(obj).__name__}[{inner}]"
    if isinstance(obj, dict):
        inner = ",".join(f"{canon(k, depth+1)}=>{canon(v, depth+1)}" for k, v in obj.items())
        return f"dict{{{inner}}}"
    if isinstance(obj, BaseException):
        return f"exc:{type(obj).__name__}:{obj}"
    if isinstance(obj, hvsrpy.TimeSeries):
        return f"TimeSeries({canon(obj.amplitude, depth+1)},{canon(obj.dt_in_seconds)})"
    if isinstance(obj, hvsrpy.SeismicRecording3C):
        return ("Rec3C(" + ",".join(canon(getattr(obj, c), depth+1) for c in ("ns", "ew", "vt"))
                + "," + canon(obj.degrees_from_north) + "," + canon(obj.meta, depth+1) + ")")
    if isinstance(obj, hvsrpy.HvsrTraditional):
        return "HvsrTraditional(" + canon(state_of_traditional(obj), depth+1) + ")"
    if isinstance(obj, hvsrpy.HvsrAzimuthal):
        return "HvsrAzimuthal(" + canon(state_of_azimuthal(obj), depth+1) + ")"
    return f"<{type(obj).__module__}.{type(obj).__name__}>"


def state_of_traditional(hvsr):
    wmask, pmask = hvsr.valid_window_boolean_mask, hvsr.valid_peak_boolean_mask
    return dict(frequency=hvsr.frequency, amplitude=hvsr.amplitude,
                n_curves=hvsr.n_curves,
                window_mask=wmask, peak_mask=pmask,
                window_mask_type=type(wmask).__name__,
                peak_mask_type=type(pmask).__name__,
                masks_same_object=wmask is pmask,
                masks_share_memory=(bool(np.shares_memory(wmask, pmask))
                                    if isinstance(wmask, np.ndarray) and isinstance(pmask, np.ndarray)
                                    else None),
                main_peak_frq=hvsr._main_peak_frq, main_peak_amp=hvsr._main_peak_amp,
                search_range=hvsr._search_range_in_hz,
                find_peaks_kwargs=hvsr._find_peaks_kwargs,
                meta=hvsr.meta)


def state_of_azimuthal(ahvsr):
    masks = []
    for h in ahvsr.hvsrs:
        masks.extend([h.valid_window_boolean_mask, h.valid_peak_boolean_mask])
    shared = False
    for i in range(len(masks)):
        for j in range(i+1, len(masks)):
            if masks[i] is masks[j] or (isinstance(masks[i], np.ndarray) and isinstance(masks[j], np.ndarray)
                                         and np.shares_memory(masks[i], masks[j])):
                shared = True
    return dict(azimuths=ahvsr.azimuths, meta=ahvsr.meta, any_masks_shared=shared,
                hvsrs=[state_of_traditional(h) for h in ahvsr.hvsrs])


class Recorder:
    def __init__(self):
        self.results = hashlib.sha256()
        self.warnings = hashlib.sha256()
        self.n_results = 0
        self.n_warnings = 0
        self.n_exceptions = 0

    def rec(self, label, obj):
        text = f"{label} := {canon(obj)}\n"
        if VERBOSE:
            sys.stdout.write(text if len(text) < 400 else text[:400] + "...\n")
        self.results.update(text.encode())
        self.n_results += 1

    def warn(self, label, caught):
        for w in caught:
            text = f"{label} !! {w.category.__name__}: {w.message}\n"
            if VERBOSE:
                sys.stdout.write(text)
            self.warnings.update(text.encode())
            self.n_warnings += 1

    def call(self, label, fn, *args, **kwargs):
        """Call ``fn`` recording result or exception, and warnings."""
        with warnings.catch_warnings(record=True) as caught:
            warnings.simplefilter("always")
            try:
                out = fn(*args, **kwargs)
            except Exception as e:  # noqa: BLE001
                self.rec(label + " raised", e)
                self.n_exceptions += 1
                out = e
            else:
                self.rec(label + " returned", out)
        self.warn(label, caught)
        return out


R = Recorder()


class ListHandler(logging.Handler):
    """Formats at emit time, as stream and file handlers do."""

    def __init__(self):
        super().__init__(level=logging.DEBUG)
        self.lines = []

    def emit(self, record):
        self.lines.append(f"{record.name}|{record.levelname}|{record.getMessage()}")


LOG = ListHandler()
wr_logger = logging.getLogger("hvsrpy.window_rejection")
wr_logger.addHandler(LOG)
wr_logger.setLevel(logging.DEBUG)
wr_logger.propagate = False
logging.getLogger("hvsrpy").setLevel(logging.CRITICAL)
wr_logger.setLevel(logging.DEBUG)


def drain_log(label):
    R.rec(label + " log", list(LOG.lines))
    LOG.lines.clear()


# --------------------------------------------------------------------------
# 1. statistics helpers
# --------------------------------------------------------------------------

def section_statistics():
    rng = np.random.default_rng(20240611)
    R.rec("maps.pre.keys", {k: list(v.keys()) for k, v in st.PRE_PROCESS_FUNCTION_MAP.items()})
    R.rec("maps.post.keys", {k: list(v.keys()) for k, v in st.POST_PROCESS_FUNCTION_MAP.items()})
    R.rec("maps.distribution", dict(st.DISTRIBUTION_MAP))
    probe = np.array([0.5, 1.0, 2.0, 4.0])
    for dist in ("normal", "lognormal"):
        for calc in ("mean", "std"):
            pre = st.PRE_PROCESS_FUNCTION_MAP[dist][calc]
            post = st.POST_PROCESS_FUNCTION_MAP[dist][calc]
            R.rec(f"maps.{dist}.{calc}.pre", pre(probe))
            R.rec(f"maps.{dist}.{calc}.post", post(probe))
            R.rec(f"maps.{dist}.{calc}.pre_is_input", pre(probe) is probe)
            R.rec(f"maps.{dist}.{calc}.post_is_input", post(probe) is probe)

    for dist in ("normal", "lognormal", "log-normal", "LogNormal", "NORMAL", "Log-Normal",
                 "foo", "", None, 3, ["normal"]):
        for calc in ("mean", "std", "median"):
            def probe_factory(dist=dist, calc=calc):
                pre, post = st._distribution_factory(dist, calc)
                return (pre(probe), post(probe), pre(probe) is probe, post(probe) is probe)
            R.call(f"factory[{dist!r},{calc}]", probe_factory)
    R.call("factory.default_calc", lambda: st._distribution_factory("normal")[1](probe))

    values_bank = {
        "vec": rng.lognormal(0.2, 0.4, 25),
        "vec_nan": np.where(rng.random(25) < 0.3, np.nan, rng.lognormal(0.2, 0.4, 25)),
        "vec_allnan": np.full(6, np.nan),
        "vec_one": np.array([1.7]),
        "vec_empty": np.array([]),
        "vec_zero": np.array([0.0, 1.0, 2.0]),
        "vec_neg": np.array([-1.0, 1.0, 2.0]),
        "vec_const": np.full(7, 3.25),
        "vec_int": np.arange(1, 9),
        "vec_f32": rng.lognormal(0, 0.3, 11).astype(np.float32),
        "list": [1.5, 2.5, 0.75, 4.0],
        "list_int": [1, 2, 3, 4],
        "mat": rng.lognormal(0.1, 0.5, (9, 14)),
        "mat_nan": np.where(rng.random((9, 14)) < 0.2, np.nan, rng.lognormal(0.1, 0.5, (9, 14))),
        "mat_one_row": rng.lognormal(0.1, 0.5, (1, 14)),
        "big": rng.lognormal(0.0, 1.0, 4001),
    }
    kwargs_bank = {"none": None, "empty": {}, "axis0": dict(axis=0), "axis1": dict(axis=1),
                   "axism1": dict(axis=-1), "keepdims": dict(axis=0, keepdims=True)}

    def weights_for(name, values):
        arr = np.asarray(values, dtype=float)
        out = {"none": None}
        if arr.ndim == 1 and arr.size:
            w = np.random.default_rng(arr.size).random(arr.size)
            out["rand"] = w
            out["cheng"] = w/np.sum(w)
            wn = (w/np.sum(w)).copy()
            wn[::3] = np.nan
            out["with_nan"] = wn
            out["zeros"] = np.zeros(arr.size)
            out["list"] = (w/np.sum(w)).tolist()
        elif arr.ndim == 2:
            w = np.random.default_rng(arr.shape[0]).random(arr.shape[0])
            out["column"] = (w/np.sum(w))[:, np.newaxis]*np.ones(arr.shape)
        return out

    for dist in ("normal", "lognormal", "log-normal", "Lognormal", "bogus"):
        for vname, values in values_bank.items():
            for wname, weights in weights_for(vname, values).items():
                for kname, kw in kwargs_bank.items():
                    ndim = np.ndim(values)
                    if kname in ("axis1",) and ndim < 2:
                        continue
                    if dist in ("log-normal", "Lognormal", "bogus") and kname not in ("none", "axis0"):
                        continue
                    snapshot_v = canon(values)
                    snapshot_w = canon(weights)
                    snapshot_k = canon(kw)
                    label = f"[{dist},{vname},{wname},{kname}]"
                    R.call("nanmean" + label, st._nanmean_weighted, dist, values,
                           weights=weights, mean_kwargs=kw)
                    for denom in ("nist", "cheng", "other"):
                        if denom == "other" and (vname != "vec" or kname != "none"):
                            continue
                        R.call(f"nanstd{label}[{denom}]", st._nanstd_weighted, dist, values,
                               weights=weights, std_kwargs=kw, denominator=denom)
                    R.rec("inputs_untouched" + label,
                          (snapshot_v == canon(values), snapshot_w == canon(weights),
                           snapshot_k == canon(kw)))
    # positional / default forms
    R.call("nanmean.positional", st._nanmean_weighted, "lognormal", values_bank["vec"],
           np.full(25, 1/25), dict(axis=0))
    R.call("nanstd.positional", st._nanstd_weighted, "lognormal", values_bank["vec"],
           np.full(25, 1/25), dict(axis=0), "cheng")
    R.call("nanstd.default", st._nanstd_weighted, "normal", values_bank["vec"])
    R.call("nanmean.none_dist", st._nanmean_weighted, None, values_bank["vec"])
    R.call("nanstd.none_dist", st._nanstd_weighted, None, values_bank["vec"])

    means = [1.5, np.float64(2.25), np.array([0.5, 1.0, 3.0]), 0.0, -1.0, np.nan]
    stds = [0.3, np.float64(0.0), np.array([0.1, 0.2, 0.3]), np.nan]
    for dist in ("normal", "lognormal", "log-normal", "Lognormal", "NORMAL", "foo", None, ["normal"]):
        for n in (-2, -1, 0, 1, 2.5):
            for im, mean in enumerate(means):
                for isd, std in enumerate(stds):
                    R.call(f"nth_std[{dist!r},{n},{im},{isd}]", st._nth_std_factory, n, dist, mean, std)
    R.call("nth_std.keywords", st._nth_std_factory, n=1, distribution="normal", mean=2., std=0.5)

    flat_cases = {
        "lists": [[1, 2], [3], [], [4, 5, 6]],
        "empty": [],
        "arrays": [np.array([1., 2.]), np.array([]), np.array([3.])],
        "tuples": ((1, 2), (3, 4)),
        "mixed": [[1, "a"], (2.5,), np.array([7])],
        "nested": [[[1, 2], [3]], [[4]]],
        "strings": ["ab", "c"],
        "generator_outer": None,
        "bad_inner": [[1], 2],
        "not_iterable": 5,
        "dict_inner": [{"a": 1, "b": 2}, {"c": 3}],
    }
    for name, case in flat_cases.items():
        if name == "generator_outer":
            case = (list(range(i)) for i in range(4))
        out = R.call(f"flatten[{name}]", st._flatten_list, case)
        R.rec(f"flatten[{name}].type", type(out).__name__)
        if isinstance(out, list):
            R.rec(f"flatten[{name}].element_types", [type(o).__name__ for o in out])
    same = [1, 2]
    outer = [same]
    result = st._flatten_list(outer)
    R.rec("flatten.is_new_list", (result is not same, result is not outer))


# --------------------------------------------------------------------------
# 2. helpers to build records and hvsr objects
# --------------------------------------------------------------------------

def make_records(seed, n_records=6, n_samples=3000, dt=0.01, spikes=(), zeros=(), nans=(), scale=None):
    rng = np.random.default_rng(seed)
    records = []
    for idx in range(n_records):
        parts = []
        for c in range(3):
            amp = rng.normal(0, 1, n_samples)
            if scale is not None:
                amp *= scale[idx % len(scale)]
            if idx in spikes:
                where = int(rng.integers(0, n_samples-200))
                amp[where:where+150] += rng.normal(0, 9, 150)*(c+1)
            if idx in zeros:
                amp[:] = 0.
            if idx in nans and c == 1:
                amp[17] = np.nan
            parts.append(hvsrpy.TimeSeries(amp, dt))
        records.append(hvsrpy.SeismicRecording3C(*parts, degrees_from_north=0.,
                                                 meta={"idx": idx}))
    return records


def make_traditional(seed, n_curves=12, n_frq=96, outliers=3, meta=None, flat=()):
    rng = np.random.default_rng(seed)
    frq = np.geomspace(0.2, 20, n_frq)
    amp = np.empty((n_curves, n_frq))
    for idx in range(n_curves):
        f0 = 2.0*np.exp(rng.normal(0, 0.08))
        if idx < outliers:
            f0 = rng.choice([0.45, 9.0, 6.0])*np.exp(rng.normal(0, 0.05))
        a0 = 4.0*np.exp(rng.normal(0, 0.2))
        curve = 1 + (a0-1)*np.exp(-0.5*(np.log(frq/f0)/0.18)**2)
        curve += 0.5*np.exp(-0.5*(np.log(frq/(3.1*f0))/0.1)**2)
        curve *= np.exp(rng.normal(0, 0.03, n_frq))
        if idx in flat:
            curve = np.linspace(3, 1, n_frq)
        amp[idx] = curve
    return hvsrpy.HvsrTraditional(frq, amp, meta=meta)


def make_azimuthal(seed, n_az=4, **kwargs):
    hvsrs = [make_traditional(seed*31+i, **kwargs) for i in range(n_az)]
    azimuths = list(np.linspace(0, 180, n_az, endpoint=False))
    return hvsrpy.HvsrAzimuthal(hvsrs, azimuths, meta={"made by": "equivalence"})


class NotAnHvsr:
    def __init__(self):
        self.meta = {}
        self.hvsrs = []
        self.valid_window_boolean_mask = "untouched"
        self.valid_peak_boolean_mask = "untouched"


def summarise_stats(hvsr):
    out = {}
    for dist in ("normal", "lognormal"):
        for name in ("mean_fn_frequency", "std_fn_frequency", "mean_fn_amplitude",
                     "std_fn_amplitude", "mean_curve", "std_curve", "mean_curve_peak", "cov_fn"):
            try:
                with warnings.catch_warnings():
                    warnings.simplefilter("ignore")
                    out[f"{name}.{dist}"] = getattr(hvsr, name)(dist)
            except Exception as e:  # noqa: BLE001
                out[f"{name}.{dist}"] = e
    return out


# --------------------------------------------------------------------------
# 3. time-domain rejection
# --------------------------------------------------------------------------

def hvsr_targets(n_records):
    def trad():
        rng = np.random.default_rng(n_records)
        return hvsrpy.HvsrTraditional(np.geomspace(0.2, 20, 32),
                                      1 + rng.random((max(n_records, 1), 32)), meta={"a": 1})

    def azim():
        return hvsrpy.HvsrAzimuthal([trad(), trad(), trad()], [0, 60, 120], meta={"b": 2})
    return {"none": lambda: None, "traditional": trad, "azimuthal": azim, "bogus": NotAnHvsr,
            "string": lambda: "hvsr"}


def check_time_domain(label, fn, records, hvsr_factory, **kwargs):
    record_snapshot = canon(list(records)) if isinstance(records, (list, tuple)) else None
    hvsr = hvsr_factory()
    kw_snapshot = canon(kwargs)
    out = R.call(label, fn, records, hvsr=hvsr, **kwargs)
    if isinstance(out, list) and isinstance(records, (list, tuple)):
        R.rec(label + ".identity", [next((i for i, r in enumerate(records) if r is o), -1) for o in out])
        R.rec(label + ".new_list", out is not records)
        R.rec(label + ".records_untouched", record_snapshot == canon(list(records)))
    R.rec(label + ".kwargs_untouched", kw_snapshot == canon(kwargs))
    if isinstance(hvsr, NotAnHvsr):
        R.rec(label + ".hvsr", (hvsr.meta, hvsr.valid_window_boolean_mask, hvsr.valid_peak_boolean_mask))
    else:
        R.rec(label + ".hvsr", hvsr)
    if isinstance(hvsr, (hvsrpy.HvsrTraditional, hvsrpy.HvsrAzimuthal)):
        R.rec(label + ".hvsr.stats", summarise_stats(hvsr))
    return out, hvsr


def section_sta_lta():
    banks = {
        "clean": make_records(1),
        "spiky": make_records(2, spikes=(1, 4)),
        "many": make_records(3, n_records=40, n_samples=1200, spikes=(0, 7, 8, 21, 39)),
        "zeros": make_records(4, zeros=(2,)),
        "nans": make_records(5, nans=(3,), spikes=(0,)),
        "single": make_records(6, n_records=1),
        "empty": [],
        "short": make_records(7, n_records=3, n_samples=250),
        "tuple": tuple(make_records(8, n_records=4, spikes=(2,))),
    }
    param_sets = {
        "default": {},
        "tight": dict(sta_seconds=1, lta_seconds=30, min_sta_lta_ratio=0.85, max_sta_lta_ratio=1.2),
        "tighter": dict(sta_seconds=0.5, lta_seconds=10, min_sta_lta_ratio=0.9, max_sta_lta_ratio=1.1),
        "loose": dict(sta_seconds=2, lta_seconds=20, min_sta_lta_ratio=0.01, max_sta_lta_ratio=50),
        "odd": dict(sta_seconds=0.73, lta_seconds=11.3, min_sta_lta_ratio=0.7, max_sta_lta_ratio=1.4),
        "only_vt": dict(sta_seconds=1, lta_seconds=10, min_sta_lta_ratio=0.8, max_sta_lta_ratio=1.25,
                        components=("vt",)),
        "hz_list": dict(sta_seconds=1, lta_seconds=10, min_sta_lta_ratio=0.8, max_sta_lta_ratio=1.25,
                        components=["ew", "ns"]),
        "no_components": dict(components=()),
        "bad_component": dict(components=("ns", "up")),
        "sta_too_long": dict(sta_seconds=31, lta_seconds=30),
        "lta_too_long": dict(sta_seconds=1, lta_seconds=31),
        "both_too_long": dict(sta_seconds=50, lta_seconds=60),
        "sta_below_dt": dict(sta_seconds=0.001, lta_seconds=10),
        "lta_below_dt": dict(sta_seconds=1, lta_seconds=0.001),
        "sta_exact": dict(sta_seconds=30, lta_seconds=30),
        "int_args": dict(sta_seconds=3, lta_seconds=7, min_sta_lta_ratio=0, max_sta_lta_ratio=3),
    }
    for bname, records in banks.items():
        targets = hvsr_targets(len(records))
        for pname, params in param_sets.items():
            for tname, factory in targets.items():
                if tname in ("bogus", "string") and pname not in ("default", "tight", "sta_too_long"):
                    continue
                if tname == "azimuthal" and pname not in ("default", "tight", "tighter", "only_vt",
                                                          "lta_too_long", "no_components"):
                    continue
                label = f"sta_lta[{bname},{pname},{tname}]"
                check_time_domain(label, hvsrpy.sta_lta_window_rejection, records, factory, **params)

    # records given as a one-shot generator
    records = banks["spiky"]
    check_time_domain("sta_lta[generator]", hvsrpy.sta_lta_window_rejection,
                      (r for r in records), hvsr_targets(len(records))["traditional"],
                      sta_seconds=1, lta_seconds=30, min_sta_lta_ratio=0.85, max_sta_lta_ratio=1.2)
    # positional call
    R.call("sta_lta[positional]", hvsrpy.sta_lta_window_rejection, records, 1, 20, 0.8, 1.3, ("ns",))
    # repeated calls on the same hvsr, then frequency-domain rejection afterwards
    hvsr = make_traditional(11, n_curves=len(banks["many"]))
    for rep, params in enumerate((param_sets["tight"], param_sets["loose"], param_sets["tighter"])):
        out = R.call(f"sta_lta[repeat{rep}]", hvsrpy.sta_lta_window_rejection, banks["many"],
                     hvsr=hvsr, **{k: (v if k != "lta_seconds" else min(v, 12)) for k, v in params.items()})
        R.rec(f"sta_lta[repeat{rep}].hvsr", hvsr)
    R.call("sta_lta[repeat].fdwra", hvsrpy.frequency_domain_window_rejection, hvsr)
    R.rec("sta_lta[repeat].fdwra.hvsr", hvsr)
    drain_log("sta_lta")
    # mutation of one mask must not leak into the other mask nor other azimuths
    ahvsr = hvsr_targets(6)["azimuthal"]()
    hvsrpy.sta_lta_window_rejection(banks["spiky"], sta_seconds=1, lta_seconds=30,
                                    min_sta_lta_ratio=0.85, max_sta_lta_ratio=1.2, hvsr=ahvsr)
    ahvsr.hvsrs[0].valid_window_boolean_mask[0] = not ahvsr.hvsrs[0].valid_window_boolean_mask[0]
    R.rec("sta_lta[alias_probe]", ahvsr)


def section_maximum_value():
    banks = {
        "clean": make_records(21),
        "scaled": make_records(22, n_records=9, scale=(1, 0.2, 3, 0.5)),
        "spiky": make_records(23, n_records=15, n_samples=800, spikes=(1, 4, 9)),
        "zeros": make_records(24, zeros=(0, 1, 2, 3, 4, 5)),
        "one_zero": make_records(25, zeros=(2,)),
        "nans": make_records(26, nans=(3,), spikes=(0,)),
        "single": make_records(27, n_records=1),
        "empty": [],
        "tuple": tuple(make_records(28, n_records=4, spikes=(2,))),
    }
    param_sets = {
        "default": {},
        "half": dict(maximum_value_threshold=0.5),
        "one": dict(maximum_value_threshold=1.0),
        "above_one": dict(maximum_value_threshold=1.0000001),
        "int_threshold": dict(maximum_value_threshold=1),
        "absolute": dict(maximum_value_threshold=4.2, normalized=False),
        "absolute_small": dict(maximum_value_threshold=0.0, normalized=False),
        "only_vt": dict(maximum_value_threshold=0.8, components=("vt",)),
        "hz_list": dict(maximum_value_threshold=0.8, components=["ew", "ns"]),
        "no_components": dict(components=()),
        "no_components_abs": dict(components=(), normalized=False, maximum_value_threshold=0.5),
        "bad_component": dict(components=("ns", "up")),
        "np_threshold": dict(maximum_value_threshold=np.float64(0.75)),
    }
    for bname, records in banks.items():
        targets = hvsr_targets(len(records))
        for pname, params in param_sets.items():
            for tname, factory in targets.items():
                if tname in ("bogus", "string") and pname not in ("default", "absolute"):
                    continue
                if tname == "azimuthal" and pname not in ("default", "half", "absolute", "only_vt"):
                    continue
                label = f"max_value[{bname},{pname},{tname}]"
                check_time_domain(label, hvsrpy.maximum_value_window_rejection, records, factory, **params)
    records = banks["spiky"]
    check_time_domain("max_value[generator]", hvsrpy.maximum_value_window_rejection,
                      (r for r in records), hvsr_targets(len(records))["traditional"])
    R.call("max_value[positional]", hvsrpy.maximum_value_window_rejection, records, 0.6, True, ("ns",))
    hvsr = make_traditional(31, n_curves=len(records))
    for rep, thr in enumerate((0.4, 0.9, 0.2)):
        R.call(f"max_value[repeat{rep}]", hvsrpy.maximum_value_window_rejection, records,
               maximum_value_threshold=thr, hvsr=hvsr)
        R.rec(f"max_value[repeat{rep}].hvsr", hvsr)
    R.call("max_value[repeat].fdwra", hvsrpy.frequency_domain_window_rejection, hvsr, n=1.5)
    R.rec("max_value[repeat].fdwra.hvsr", hvsr)
    drain_log("max_value")


# --------------------------------------------------------------------------
# 4. frequency-domain rejection
# --------------------------------------------------------------------------

def section_fdwra():
    arg_sets = {
        "default": {},
        "n1": dict(n=1),
        "n1.5": dict(n=1.5),
        "n2.5_normal": dict(n=2.5, distribution_fn="normal", distribution_mc="normal"),
        "mixed": dict(n=2, distribution_fn="normal", distribution_mc="lognormal"),
        "mixed2": dict(n=2, distribution_fn="lognormal", distribution_mc="normal"),
        "hyphen": dict(n=2, distribution_fn="log-normal", distribution_mc="log-normal"),
        "upper": dict(n=2, distribution_fn="LOGNORMAL"),
        "upper_mc": dict(n=2, distribution_mc="Lognormal"),
        "bad_fn": dict(distribution_fn="exponential"),
        "bad_mc": dict(distribution_mc="exponential"),
        "one_iter": dict(n=1, max_iterations=1),
        "two_iter": dict(n=1, max_iterations=2),
        "zero_iter": dict(max_iterations=0),
        "neg_iter": dict(max_iterations=-3),
        "float_iter": dict(max_iterations=5.0),
        "np_iter": dict(n=1, max_iterations=np.int64(3)),
        "range": dict(n=2, search_range_in_hz=(1.0, 5.0)),
        "range_list": dict(n=1.5, search_range_in_hz=[0.3, None]),
        "range_high": dict(n=2, search_range_in_hz=(None, 1.0)),
        "range_empty": dict(n=2, search_range_in_hz=(15.0, 19.0)),
        "fpk": dict(n=2, find_peaks_kwargs=dict(prominence=0.5)),
        "fpk_empty": dict(n=2, find_peaks_kwargs={}),
        "fpk_strict": dict(n=2, find_peaks_kwargs=dict(height=100.)),
        "n0": dict(n=0),
        "n_big": dict(n=50),
        "n_neg": dict(n=-1),
    }
    builders = {
        "trad": lambda: make_traditional(41, meta={"pre": "existing"}),
        "trad_many": lambda: make_traditional(42, n_curves=60, outliers=14),
        "trad_no_outliers": lambda: make_traditional(43, outliers=0),
        "trad_flat_some": lambda: make_traditional(44, flat=(1, 5)),
        "trad_flat_all": lambda: make_traditional(45, n_curves=4, flat=(0, 1, 2, 3)),
        "trad_single": lambda: make_traditional(46, n_curves=1, outliers=0),
        "trad_two": lambda: make_traditional(47, n_curves=2, outliers=1),
        "azim": lambda: make_azimuthal(48),
        "azim_many": lambda: make_azimuthal(49, n_az=7, n_curves=25, outliers=6),
        "azim_one": lambda: make_azimuthal(50, n_az=1),
        "azim_flat": lambda: make_azimuthal(51, n_az=3, flat=(2,)),
    }
    for bname, build in builders.items():
        for aname, args in arg_sets.items():
            if bname not in ("trad", "azim") and aname not in ("default", "n1", "n1.5", "n2.5_normal",
                                                               "mixed", "range", "fpk", "one_iter",
                                                               "zero_iter", "n0"):
                continue
            hvsr = build()
            args_snapshot = canon(args)
            label = f"fdwra[{bname},{aname}]"
            R.call(label, hvsrpy.frequency_domain_window_rejection, hvsr, **args)
            R.rec(label + ".hvsr", hvsr)
            R.rec(label + ".stats", summarise_stats(hvsr))
            R.rec(label + ".args_untouched", args_snapshot == canon(args))
            key = "window rejection algorithm arguments"
            if key in hvsr.meta:
                stored = hvsr.meta[key]
                R.rec(label + ".meta_alias",
                      (stored["search_range_in_hz"] is args.get("search_range_in_hz", None),
                       stored["find_peaks_kwargs"] is args.get("find_peaks_kwargs", None),
                       "search_range_in_hz" in args, "find_peaks_kwargs" in args,
                       list(hvsr.meta.keys())))
            drain_log(label)
            # second and third call on the same object (changed and unchanged arguments)
            R.call(label + ".again", hvsrpy.frequency_domain_window_rejection, hvsr, **args)
            R.rec(label + ".again.hvsr", hvsr)
            if aname in ("default", "n1", "range"):
                R.call(label + ".third", hvsrpy.frequency_domain_window_rejection, hvsr, n=1.2,
                       search_range_in_hz=(0.5, 8.0))
                R.rec(label + ".third.hvsr", hvsr)
                R.rec(label + ".third.stats", summarise_stats(hvsr))
            drain_log(label + ".again")

    # positional call
    hvsr = builders["trad"]()
    R.call("fdwra[positional]", hvsrpy.frequency_domain_window_rejection, hvsr, 1.5, 20,
           "normal", "lognormal", (0.5, 10), dict(prominence=0.1))
    R.rec("fdwra[positional].hvsr", hvsr)

    # wrong types
    for name, thing in (("bogus", NotAnHvsr()), ("string", "hvsr"), ("none", None),
                        ("curve", hvsrpy.HvsrCurve(np.geomspace(0.2, 20, 32), 1+np.arange(32.)))):
        R.call(f"fdwra[wrongtype,{name}]", hvsrpy.frequency_domain_window_rejection, thing)
        if isinstance(thing, NotAnHvsr):
            R.rec(f"fdwra[wrongtype,{name}].meta", thing.meta)
        elif hasattr(thing, "meta"):
            R.rec(f"fdwra[wrongtype,{name}].meta", thing.meta)

    # pre-set masks in unusual states
    hvsr = builders["trad_many"]()
    rng = np.random.default_rng(77)
    hvsr.valid_window_boolean_mask = rng.random(60) < 0.7
    hvsr.valid_peak_boolean_mask = rng.random(60) < 0.7
    R.call("fdwra[premasked_independent]", hvsrpy.frequency_domain_window_rejection, hvsr, n=1.5)
    R.rec("fdwra[premasked_independent].hvsr", hvsr)
    drain_log("fdwra[premasked_independent]")

    hvsr = builders["trad_many"]()
    hvsr.valid_window_boolean_mask = np.zeros(60, dtype=bool)
    hvsr.valid_peak_boolean_mask = np.zeros(60, dtype=bool)
    R.call("fdwra[premasked_all_false]", hvsrpy.frequency_domain_window_rejection, hvsr)
    R.rec("fdwra[premasked_all_false].hvsr", hvsr)

    hvsr = builders["trad_many"]()
    shared = rng.random(60) < 0.8
    hvsr.valid_window_boolean_mask = shared
    hvsr.valid_peak_boolean_mask = shared
    R.call("fdwra[premasked_shared_object]", hvsrpy.frequency_domain_window_rejection, hvsr, n=1)
    R.rec("fdwra[premasked_shared_object].hvsr", hvsr)
    R.rec("fdwra[premasked_shared_object].still_shared",
          (hvsr.valid_window_boolean_mask is shared, hvsr.valid_peak_boolean_mask is shared))

    hvsr = builders["trad"]()
    hvsr.valid_window_boolean_mask = np.ones(5, dtype=bool)
    R.call("fdwra[mask_wrong_length]", hvsrpy.frequency_domain_window_rejection, hvsr)
    R.rec("fdwra[mask_wrong_length].hvsr.meta", hvsr.meta)

    hvsr = builders["trad"]()
    hvsr.valid_window_boolean_mask = hvsr.valid_window_boolean_mask.tolist()
    hvsr.valid_peak_boolean_mask = hvsr.valid_peak_boolean_mask.tolist()
    R.call("fdwra[list_masks]", hvsrpy.frequency_domain_window_rejection, hvsr, n=1)
    R.rec("fdwra[list_masks].masks", (hvsr.valid_window_boolean_mask, hvsr.valid_peak_boolean_mask,
                                      type(hvsr.valid_window_boolean_mask).__name__))

    hvsr = builders["trad"]()
    hvsr.valid_window_boolean_mask = hvsr.valid_window_boolean_mask.astype(int)
    hvsr.valid_peak_boolean_mask = hvsr.valid_peak_boolean_mask.astype(int)
    R.call("fdwra[int_masks]", hvsrpy.frequency_domain_window_rejection, hvsr, n=1)
    R.rec("fdwra[int_masks].masks", (hvsr.valid_window_boolean_mask, hvsr.valid_peak_boolean_mask))

    # peaks marked valid although the window has none (nan peak frequency)
    hvsr = builders["trad_flat_some"]()
    hvsr.valid_peak_boolean_mask = np.ones(hvsr.n_curves, dtype=bool)
    hvsr.valid_window_boolean_mask = np.ones(hvsr.n_curves, dtype=bool)
    R.call("fdwra[nan_peaks_marked_valid]", hvsrpy.frequency_domain_window_rejection, hvsr, n=1.5)
    R.rec("fdwra[nan_peaks_marked_valid].hvsr", hvsr)

    # subclasses are accepted wherever the parent classes are
    class MyTraditional(hvsrpy.HvsrTraditional):
        pass

    class MyAzimuthal(hvsrpy.HvsrAzimuthal):
        pass

    base = builders["trad"]()
    sub = MyTraditional(base.frequency, base.amplitude, meta={"sub": True})
    R.call("fdwra[subclass_trad]", hvsrpy.frequency_domain_window_rejection, sub, n=1.5)
    R.rec("fdwra[subclass_trad].hvsr", sub)
    base = builders["azim"]()
    sub = MyAzimuthal(base.hvsrs, base.azimuths, meta={"sub": True})
    R.call("fdwra[subclass_azim]", hvsrpy.frequency_domain_window_rejection, sub, n=1.5)
    R.rec("fdwra[subclass_azim].hvsr", sub)
    records = make_records(63, n_records=12, n_samples=600, spikes=(5,))
    R.call("max_value[subclass_azim]", hvsrpy.maximum_value_window_rejection, records, 0.8, hvsr=sub)
    R.rec("max_value[subclass_azim].hvsr", sub)
    R.call("sta_lta[subclass_azim]", hvsrpy.sta_lta_window_rejection, records, 0.5, 5, 0.7, 1.4, hvsr=sub)
    R.rec("sta_lta[subclass_azim].hvsr", sub)

    # windows rejected in the time domain come back when their peak is inside the bounds
    hvsr = builders["trad_no_outliers"]()
    hvsr.valid_window_boolean_mask[:] = False
    R.call("fdwra[window_false_peak_true]", hvsrpy.frequency_domain_window_rejection, hvsr, n=3)
    R.rec("fdwra[window_false_peak_true].hvsr", hvsr)
    drain_log("fdwra[extra]")

    # pre-set masks survive the peak update only when the peak arguments are
    # those already in force (an empty dict, not None), so repeat with these.
    def premasked(name, n_curves, seed, window, peak, build=None, **kwargs):
        hvsr = (build or builders["trad_many"])()
        rng = np.random.default_rng(seed)
        hvsr.valid_window_boolean_mask = window(rng, hvsr.n_curves)
        hvsr.valid_peak_boolean_mask = peak(rng, hvsr.n_curves, hvsr.valid_window_boolean_mask)
        label = f"fdwra[kept_masks,{name}]"
        R.call(label, hvsrpy.frequency_domain_window_rejection, hvsr, find_peaks_kwargs={}, **kwargs)
        R.rec(label + ".hvsr", hvsr)
        R.rec(label + ".stats", summarise_stats(hvsr))
        drain_log(label)
        return hvsr

    for seed in (1, 2, 3):
        for n in (1, 1.5, 2):
            premasked(f"independent{seed},{n}", 60, seed, lambda r, k: r.random(k) < 0.7,
                      lambda r, k, w: r.random(k) < 0.7, n=n)
            premasked(f"independent_normal{seed},{n}", 60, seed, lambda r, k: r.random(k) < 0.7,
                      lambda r, k, w: r.random(k) < 0.7, n=n, distribution_fn="normal",
                      distribution_mc="normal")
    premasked("window_subset_of_peak", 60, 4, lambda r, k: r.random(k) < 0.5,
              lambda r, k, w: np.logical_or(w, r.random(k) < 0.5), n=2)
    premasked("peak_subset_of_window", 60, 5, lambda r, k: r.random(k) < 0.9,
              lambda r, k, w: np.logical_and(w, r.random(k) < 0.6), n=1.5)
    premasked("few_windows", 60, 6, lambda r, k: np.arange(k) % 9 == 0,
              lambda r, k, w: np.ones(k, dtype=bool), n=2)
    premasked("all_false", 60, 7, lambda r, k: np.zeros(k, dtype=bool),
              lambda r, k, w: np.zeros(k, dtype=bool))
    premasked("peaks_all_false", 60, 8, lambda r, k: np.ones(k, dtype=bool),
              lambda r, k, w: np.zeros(k, dtype=bool))
    shared = premasked("shared_object", 60, 9, lambda r, k: r.random(k) < 0.8, lambda r, k, w: w, n=1)
    R.rec("fdwra[kept_masks,shared_object].still_shared",
          shared.valid_window_boolean_mask is shared.valid_peak_boolean_mask)
    premasked("lists", 60, 10, lambda r, k: (r.random(k) < 0.7).tolist(),
              lambda r, k, w: (r.random(k) < 0.7).tolist(), n=1.5)
    premasked("ints", 60, 11, lambda r, k: (r.random(k) < 0.7).astype(int),
              lambda r, k, w: (r.random(k) < 0.7).astype(int), n=1.5)
    premasked("floats", 60, 12, lambda r, k: (r.random(k) < 0.7).astype(float),
              lambda r, k, w: (r.random(k) < 0.7).astype(float), n=1.5)
    premasked("nan_peaks_marked_valid", 12, 13, lambda r, k: np.ones(k, dtype=bool),
              lambda r, k, w: np.ones(k, dtype=bool), build=builders["trad_flat_some"], n=1.5)
    premasked("wrong_length", 12, 14, lambda r, k: np.ones(k, dtype=bool),
              lambda r, k, w: np.ones(k+1, dtype=bool), build=builders["trad"])
    premasked("wrong_length_short", 12, 15, lambda r, k: np.ones(k, dtype=bool),
              lambda r, k, w: np.ones(k-1, dtype=bool), build=builders["trad"])

    # time-domain masks followed by frequency-domain rejection that keeps them, azimuthal
    records = make_records(64, n_records=12, n_samples=900, spikes=(3, 8))
    for n in (1, 2):
        ahvsr = make_azimuthal(65, n_az=3, n_curves=12, outliers=3)
        R.call(f"kept_pipeline{n}.sta", hvsrpy.sta_lta_window_rejection, records, sta_seconds=1,
               lta_seconds=8, min_sta_lta_ratio=0.8, max_sta_lta_ratio=1.3, hvsr=ahvsr)
        R.call(f"kept_pipeline{n}.fdwra", hvsrpy.frequency_domain_window_rejection, ahvsr, n=n,
               find_peaks_kwargs={})
        R.rec(f"kept_pipeline{n}.hvsr", ahvsr)
        R.rec(f"kept_pipeline{n}.stats", summarise_stats(ahvsr))
    drain_log("kept_pipeline")

    # combined pipelines: time-domain first, then frequency-domain, azimuthal
    records = make_records(61, n_records=12, n_samples=900, spikes=(3, 8))
    ahvsr = make_azimuthal(62, n_az=3, n_curves=12, outliers=3)
    R.call("pipeline.sta", hvsrpy.sta_lta_window_rejection, records, sta_seconds=1, lta_seconds=8,
           min_sta_lta_ratio=0.8, max_sta_lta_ratio=1.3, hvsr=ahvsr)
    R.rec("pipeline.sta.hvsr", ahvsr)
    R.call("pipeline.fdwra", hvsrpy.frequency_domain_window_rejection, ahvsr, n=1.5)
    R.rec("pipeline.fdwra.hvsr", ahvsr)
    R.call("pipeline.max", hvsrpy.maximum_value_window_rejection, records, 0.7, hvsr=ahvsr)
    R.rec("pipeline.max.hvsr", ahvsr)
    R.call("pipeline.fdwra2", hvsrpy.frequency_domain_window_rejection, ahvsr, n=2,
           search_range_in_hz=(0.8, 6))
    R.rec("pipeline.fdwra2.hvsr", ahvsr)
    R.rec("pipeline.stats", summarise_stats(ahvsr))
    drain_log("pipeline")

    # the private worker, as called by older user code
    hvsr = builders["trad"]()
    R.call("fdwra[private]", wr._frequency_domain_window_rejection, hvsr, 1.5, 4, "normal", "normal")
    R.rec("fdwra[private].hvsr", hvsr)
    hvsr = builders["trad"]()
    R.call("fdwra[private_defaults]", wr._frequency_domain_window_rejection, hvsr=hvsr)
    R.rec("fdwra[private_defaults].hvsr", hvsr)
    drain_log("fdwra[private]")

    # log records captured while the level filters them out
    wr_logger.setLevel(logging.WARNING)
    hvsr = make_traditional(71)
    amp = np.ones((10, 10))
    amp[np.arange(10), np.array([1, 1, 1, 1, 1, 1, 1, 1, 1, 7])] = 2
    zero_std = hvsrpy.HvsrTraditional(np.arange(0, 10, 1), amp)
    R.call("fdwra[zero_std]", hvsrpy.frequency_domain_window_rejection, zero_std, n=2)
    R.rec("fdwra[zero_std].hvsr", zero_std)
    R.call("fdwra[warning_level]", hvsrpy.frequency_domain_window_rejection, hvsr)
    drain_log("fdwra[warning_level]")
    wr_logger.setLevel(logging.DEBUG)


# --------------------------------------------------------------------------
# 5. manual rejection, driven through its seams
# --------------------------------------------------------------------------

class Seams:
    """Replaces the interaction and plotting names of window_rejection."""

    NAMES = ("ginput_session", "plot_continue_button", "is_absolute_point_in_relative_box",
             "plot_single_panel_hvsr_curves")

    def __init__(self, clicks, root, real_plot=True):
        self.clicks = list(clicks)
        self.root = root
        self.real_plot = real_plot
        self.calls = []
        self.saved = {}

    def who(self, hvsr):
        if hvsr is self.root:
            return "root"
        members = getattr(self.root, "hvsrs", [])
        for i, member in enumerate(members):
            if hvsr is member:
                return f"member{i}"
        return type(hvsr).__name__

    def __enter__(self):
        for name in self.NAMES:
            self.saved[name] = getattr(wr, name)
        real = dict(self.saved)

        def ginput_session(*args, **kwargs):
            self.calls.append(("ginput_session", len(args), dict(kwargs)))
            if not self.clicks:
                raise RuntimeError("script exhausted")
            return self.clicks.pop(0)

        def plot_continue_button(*args, **kwargs):
            self.calls.append(("plot_continue_button", len(args), dict(kwargs)))
            return real["plot_continue_button"](*args, **kwargs)

        def is_in_box(*args, **kwargs):
            out = real["is_absolute_point_in_relative_box"](*args, **kwargs)
            self.calls.append(("is_in_box", len(args),
                               {k: v for k, v in kwargs.items() if k != "ax"}, out))
            return out

        def plot_curves(*args, **kwargs):
            hvsr = kwargs.get("hvsr", args[0] if args else None)
            self.calls.append(("plot_curves", len(args), self.who(hvsr),
                               {k: v for k, v in kwargs.items() if k not in ("hvsr", "ax")},
                               canon(getattr(hvsr, "valid_window_boolean_mask", None))
                               if isinstance(hvsr, hvsrpy.HvsrTraditional) else
                               [canon(h.valid_window_boolean_mask) for h in hvsr.hvsrs]))
            if self.real_plot:
                return real["plot_single_panel_hvsr_curves"](*args, **kwargs)
            return kwargs["ax"]

        wr.ginput_session = ginput_session
        wr.plot_continue_button = plot_continue_button
        wr.is_absolute_point_in_relative_box = is_in_box
        wr.plot_single_panel_hvsr_curves = plot_curves
        return self

    def __exit__(self, *exc):
        for name, value in self.saved.items():
            setattr(wr, name, value)
        return False


def axes_summary(ax):
    lines = [(canon(np.asarray(line.get_xdata(), dtype=float)), canon(np.asarray(line.get_ydata(), dtype=float)),
              line.get_label() if not str(line.get_label()).startswith("_") else "_")
             for line in ax.get_lines()]
    return dict(xlim=tuple(float(v) for v in ax.get_xlim()),
                ylim=tuple(float(v) for v in ax.get_ylim()),
                xscale=ax.get_xscale(), n_lines=len(lines), lines=lines,
                n_patches=len(ax.patches), texts=[t.get_text() for t in ax.texts],
                autoscale=(ax.get_autoscalex_on(), ax.get_autoscaley_on()))


def button_point(x_lim, y_lim, x_scale):
    x_lo, x_hi, y_lo, y_hi = interact._absolute_box_coordinates(
        x_range_absolute=x_lim, y_range_absolute=y_lim,
        upper_right_corner_relative=(0.11, 0.98), box_size_relative=(0.1, 0.08),
        x_scale=x_scale, y_scale="linear")
    return (float(np.sqrt(x_lo*x_hi)) if x_scale == "log" else float((x_lo+x_hi)/2),
            float((y_lo+y_hi)/2))


def run_manual(label, hvsr, clicks, real_plot=True, give_axes=True, **kwargs):
    mpl_plt.close("all")
    if give_axes:
        fig, ax = mpl_plt.subplots(figsize=(6, 4), dpi=60)
        kwargs = dict(kwargs, fig=fig, ax=ax)
    else:
        fig = ax = None
    kwargs_snapshot = canon({k: v for k, v in kwargs.items() if k not in ("fig", "ax")})
    with Seams(clicks, hvsr, real_plot=real_plot) as seams:
        R.call(label, hvsrpy.manual_window_rejection, hvsr, **kwargs)
        R.rec(label + ".seam_calls", seams.calls)
        R.rec(label + ".clicks_left", len(seams.clicks))
    R.rec(label + ".hvsr", hvsr)
    R.rec(label + ".kwargs_untouched",
          kwargs_snapshot == canon({k: v for k, v in kwargs.items() if k not in ("fig", "ax")}))
    R.rec(label + ".open_figures", len(mpl_plt.get_fignums()))
    if ax is not None:
        R.rec(label + ".axes", axes_summary(ax))
    key = "window rejection algorithm arguments"
    if hasattr(hvsr, "meta") and key in hvsr.meta:
        stored = hvsr.meta[key]
        R.rec(label + ".meta_alias",
              (stored["search_range_in_hz"] is kwargs.get("search_range_in_hz", None),
               stored["find_peaks_kwargs"] is kwargs.get("find_peaks_kwargs", None),
               list(hvsr.meta.keys())))
    mpl_plt.close("all")


def section_manual():
    # find the axes limits the first plot will have, to aim the scripted clicks.
    def limits_for(hvsr, y_limit=None):
        fig, ax = mpl_plt.subplots(figsize=(6, 4), dpi=60)
        with warnings.catch_warnings():
            warnings.simplefilter("ignore")
            hvsrpy.plot_single_panel_hvsr_curves(hvsr=hvsr, ax=ax)
        if y_limit is not None:
            ax.set_ylim((0, y_limit))
        out = (ax.get_xlim(), ax.get_ylim(), ax.get_xscale())
        mpl_plt.close(fig)
        return out

    # traditional: reject the high-frequency outliers, an empty box, then continue.
    hvsr = make_traditional(81)
    x_lim, y_lim, x_scale = limits_for(hvsr)
    go = button_point(x_lim, y_lim, x_scale)
    clicks = [([5.0, 12.0], [2.5, 6.0]),          # box over the outliers near 6 and 9 Hz
              ([14.0, 15.0], [y_lim[1]*0.7, y_lim[1]*0.72]),  # empty, not on button
              ([0.4, 0.5], [2.0, 6.5]),           # low-frequency outliers
              ([go[0], go[0]], [go[1], go[1]])]    # continue
    run_manual("manual[trad]", hvsr, clicks)
    R.rec("manual[trad].stats", summarise_stats(hvsr))

    # same with stubbed plotting, optional arguments, no axes given.
    hvsr = make_traditional(82)
    x_lim, y_lim, x_scale = limits_for(hvsr, y_limit=7)
    go = button_point(x_lim, y_lim, x_scale)
    clicks = [([12.0, 5.0], [6.0, 2.5]),
              ([x_lim[0]*0.99, go[0]], [go[1], go[1]*1.001]),   # only the second point on button
              ([go[0]*1.01, x_lim[0]*0.99], [go[1], go[1]])]    # never reached
    run_manual("manual[trad,options]", hvsr, clicks, give_axes=False,
               distribution_mc="normal", distribution_fn="normal", plot_mean_curve=False,
               plot_frequency_std=False, search_range_in_hz=(0.5, 10.0),
               find_peaks_kwargs=dict(prominence=0.2), y_limit=7)

    # continue straight away
    hvsr = make_traditional(83)
    x_lim, y_lim, x_scale = limits_for(hvsr)
    go = button_point(x_lim, y_lim, x_scale)
    run_manual("manual[trad,immediate]", hvsr, [([go[0], go[0]*1.001], [go[1], go[1]*1.001])])

    # only one of fig / ax given
    hvsr = make_traditional(84)
    fig_only, _ = mpl_plt.subplots()
    with Seams([([go[0], go[0]], [go[1], go[1]])], hvsr) as seams:
        R.call("manual[trad,fig_only]", hvsrpy.manual_window_rejection, hvsr, fig=fig_only)
        R.rec("manual[trad,fig_only].seam_calls", seams.calls)
    R.rec("manual[trad,fig_only].hvsr", hvsr)
    R.rec("manual[trad,fig_only].open_figures", len(mpl_plt.get_fignums()))
    mpl_plt.close("all")

    # exhausted script: the error must surface from the same place, with the same state
    hvsr = make_traditional(85)
    run_manual("manual[trad,exhausted]", hvsr, [([5.0, 12.0], [2.5, 6.0])])

    # azimuthal: plotting stubbed (records which object is plotted and updated)
    ahvsr = make_azimuthal(86, n_az=3)
    go = button_point((0., 1.), (0., 1.), "linear")   # the stub leaves the axes empty
    clicks = [([5.0, 12.0], [2.5, 6.0]),
              ([0.4, 0.5], [2.0, 6.5]),
              ([14.0, 15.0], [0.2, 0.3]),
              ([go[0], go[0]], [go[1], go[1]])]
    run_manual("manual[azim,stub]", ahvsr, clicks, real_plot=False)
    R.rec("manual[azim,stub].stats", summarise_stats(ahvsr))

    ahvsr = make_azimuthal(87, n_az=2)
    x_lim, y_lim, x_scale = limits_for(ahvsr)
    go = button_point(x_lim, y_lim, x_scale)
    clicks = clicks[:3] + [([go[0], go[0]], [go[1], go[1]])]
    run_manual("manual[azim,real]", ahvsr, list(clicks), real_plot=True,
               search_range_in_hz=(0.3, 15.0))

    # wrong types
    for name, thing in (("bogus", NotAnHvsr()), ("string", "hvsr"), ("none", None)):
        run_manual(f"manual[wrongtype,{name}]", thing, [], real_plot=False)
        if isinstance(thing, NotAnHvsr):
            R.rec(f"manual[wrongtype,{name}].meta", thing.meta)

    # deeper seam: the real ginput_session on top of patched pyplot functions
    hvsr = make_traditional(88)
    x_lim, y_lim, x_scale = limits_for(hvsr)
    go = button_point(x_lim, y_lim, x_scale)
    points = [[(5.0, 2.5)], [(12.0, 6.0)], [go], [go]]
    pyplot_calls = []
    saved = (mpl_plt.ginput, mpl_plt.waitforbuttonpress)

    def fake_ginput(*args, **kwargs):
        pyplot_calls.append(("ginput", args, dict(kwargs)))
        return points.pop(0)

    def fake_wait(*args, **kwargs):
        pyplot_calls.append(("wait", args, dict(kwargs)))
        return False

    mpl_plt.ginput, mpl_plt.waitforbuttonpress = fake_ginput, fake_wait
    try:
        fig, ax = mpl_plt.subplots(figsize=(6, 4), dpi=60)
        R.call("manual[pyplot_seam]", hvsrpy.manual_window_rejection, hvsr, fig=fig, ax=ax)
    finally:
        mpl_plt.ginput, mpl_plt.waitforbuttonpress = saved
    R.rec("manual[pyplot_seam].calls", pyplot_calls)
    R.rec("manual[pyplot_seam].hvsr", hvsr)
    R.rec("manual[pyplot_seam].open_figures", len(mpl_plt.get_fignums()))
    mpl_plt.close("all")
    drain_log("manual")


# --------------------------------------------------------------------------
# 6. module surface
# --------------------------------------------------------------------------

def section_surface():
    import inspect
    for fn in (hvsrpy.sta_lta_window_rejection, hvsrpy.maximum_value_window_rejection,
               hvsrpy.frequency_domain_window_rejection, hvsrpy.manual_window_rejection,
               wr._frequency_domain_window_rejection, st._nanmean_weighted, st._nanstd_weighted,
               st._nth_std_factory, st._flatten_list, st._distribution_factory):
        R.rec(f"signature[{fn.__name__}]", str(inspect.signature(fn)))
        R.rec(f"doc[{fn.__name__}]", fn.__doc__)
        R.rec(f"module[{fn.__name__}]", fn.__module__)
    for name in ("np", "logging", "logger", "HvsrTraditional", "HvsrAzimuthal", "ginput_session",
                 "plot_continue_button", "is_absolute_point_in_relative_box", "plt",
                 "plot_single_panel_hvsr_curves"):
        R.rec(f"wr.has[{name}]", hasattr(wr, name))
    R.rec("wr.plt_is_pyplot", wr.plt is mpl_plt)
    R.rec("wr.logger_name", wr.logger.name)
    for name in ("np", "DISTRIBUTION_MAP", "PRE_PROCESS_FUNCTION_MAP", "POST_PROCESS_FUNCTION_MAP"):
        R.rec(f"st.has[{name}]", hasattr(st, name))
    from hvsrpy import constants
    R.rec("st.distribution_map_is_constants", st.DISTRIBUTION_MAP is constants.DISTRIBUTION_MAP)
    R.rec("docs", (wr.__doc__, st.__doc__))


def main():
    sections = [section_surface, section_statistics, section_sta_lta, section_maximum_value,
                section_fdwra, section_manual]
    for section in sections:
        before = (R.n_results, R.n_warnings)
        r0, w0 = R.results.copy(), R.warnings.copy()
        section()
        print(f"{section.__name__:>24}: {R.n_results-before[0]:6d} records, "
              f"{R.n_warnings-before[1]:6d} warnings")
    print(f"records={R.n_results} exceptions={R.n_exceptions} warnings={R.n_warnings}")
    print(f"RESULTS  sha256 {R.results.hexdigest()}")
    print(f"WARNINGS sha256 {R.warnings.hexdigest()}")


if __name__ == "__main__":
    main()
