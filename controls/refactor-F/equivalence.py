"""Equivalence harness for the cli.py / postprocessing.py refactoring.

Imports hvsrpy from the tree this file lives in, drives the public
plotting / summary functions and the command line interface over a
range of inputs and call sequences and prints a deterministic digest
(sha256) of everything a user can observe: artists on the axes, the
rendered PNG bytes, return-value structure, argument mutation, masks,
text written to stdout, files written by the CLI and exception types.

Usage: MPLBACKEND=Agg python _refactor/equivalence.py [-v]
"""

import contextlib
import copy
import hashlib
import io
import os
import pathlib
import re
import shutil
import subprocess
import sys
import tempfile
import warnings

ROOT = pathlib.Path(__file__).resolve().parent.parent
sys.path.insert(0, str(ROOT))
os.environ.setdefault("MPLBACKEND", "Agg")

warnings.simplefilter("ignore")

import matplotlib  # noqa: E402
matplotlib.use("Agg")
import matplotlib.pyplot as plt  # noqa: E402
import numpy as np  # noqa: E402
import pandas as pd  # noqa: E402
from pandas.io.formats.style import Styler  # noqa: E402

import hvsrpy  # noqa: E402
from hvsrpy import postprocessing as pp  # noqa: E402

assert pathlib.Path(hvsrpy.__file__).resolve().parent.parent == ROOT, hvsrpy.__file__

VERBOSE = "-v" in sys.argv
DATA = ROOT / "examples" / "data"

RECORDS = []


def record(name, value):
    text = value if isinstance(value, str) else repr(value)
    digest = hashlib.sha256(text.encode("utf-8")).hexdigest()
    RECORDS.append((name, digest))
    if "--outcomes" in sys.argv:
        print(f"{digest[:12]}  {name}: {text.splitlines()[0][:150] if text else ''}")
    if VERBOSE:
        print(f"{digest[:16]}  {name}")
        if "-vv" in sys.argv:
            print(text[:2000])


# --------------------------------------------------------------------------
# canonical descriptions
# --------------------------------------------------------------------------

def arr(a):
    a = np.asarray(a)
    if a.dtype == object:
        return repr(a.tolist())
    return f"{a.dtype}|{a.shape}|{hashlib.sha256(np.ascontiguousarray(a).tobytes()).hexdigest()[:20]}"


def canon(obj):
    if isinstance(obj, np.ndarray):
        return arr(obj)
    if isinstance(obj, dict):
        return "{" + ", ".join(f"{k!r}: {canon(v)}" for k, v in obj.items()) + "}"
    if isinstance(obj, (list, tuple)):
        return type(obj).__name__ + "(" + ", ".join(canon(v) for v in obj) + ")"
    if isinstance(obj, matplotlib.colors.Colormap):
        return f"cmap:{obj.name}"
    return repr(obj)


def describe_line(line):
    return canon(dict(
        x=np.asarray(line.get_xdata(orig=True)), y=np.asarray(line.get_ydata(orig=True)),
        label=line.get_label(), color=line.get_color(), lw=line.get_linewidth(),
        ls=line.get_linestyle(), marker=line.get_marker(), ms=line.get_markersize(),
        mfc=line.get_markerfacecolor(), mec=line.get_markeredgecolor(),
        mew=line.get_markeredgewidth(), z=line.get_zorder()))


def describe_axes(ax):
    out = [f"type={type(ax).__name__}"]
    out.append("title=" + repr(ax.get_title()))
    out.append("xlabel=" + repr(ax.get_xlabel()) + " ylabel=" + repr(ax.get_ylabel()))
    if hasattr(ax, "get_zlabel"):
        out.append("zlabel=" + repr(ax.get_zlabel()))
        out.append(f"view={ax.elev},{ax.azim},{getattr(ax, 'dist', None)}")
        out.append("zlim=" + repr(tuple(float(v) for v in ax.get_zlim())))
    out.append("xscale=" + ax.get_xscale() + " yscale=" + ax.get_yscale())
    out.append("xlim=" + repr(tuple(float(v) for v in ax.get_xlim())))
    out.append("ylim=" + repr(tuple(float(v) for v in ax.get_ylim())))
    out.append("xticks=" + arr(ax.get_xticks()) + " yticks=" + arr(ax.get_yticks()))
    out.append("xticklabels=" + repr([t.get_text() for t in ax.get_xticklabels()]))
    out.append("position=" + repr([round(float(v), 9) for v in ax.get_position().bounds]))
    out.append("spines=" + repr({k: v.get_visible() for k, v in ax.spines.items()}))
    out.append("children=" + repr([type(c).__name__ for c in ax.get_children()]))
    for line in ax.lines:
        out.append("line " + describe_line(line))
    for patch in ax.patches:
        out.append("patch " + canon(dict(
            kind=type(patch).__name__, xy=np.asarray(patch.get_xy()) if hasattr(patch, "get_xy") else None,
            fc=patch.get_facecolor(), ec=patch.get_edgecolor(), lw=patch.get_linewidth(),
            label=patch.get_label(), z=patch.get_zorder())))
    for coll in ax.collections:
        desc = dict(kind=type(coll).__name__, label=coll.get_label(), z=coll.get_zorder(),
                    cmap=coll.get_cmap().name if coll.get_cmap() is not None else None,
                    clim=coll.get_clim(),
                    array=None if coll.get_array() is None else np.asarray(coll.get_array()))
        try:
            desc["paths"] = [arr(p.vertices) for p in coll.get_paths()]
        except Exception as exc:  # pragma: no cover
            desc["paths"] = type(exc).__name__
        for attr in ("_vec", "_offsets3d", "levels"):
            if hasattr(coll, attr):
                val = getattr(coll, attr)
                desc[attr] = [arr(v) for v in val] if isinstance(val, tuple) else arr(val)
        desc["fc"] = arr(coll.get_facecolor())
        desc["ec"] = arr(coll.get_edgecolor())
        out.append("collection " + canon(desc))
    for text in ax.texts:
        bbox = text.get_bbox_patch()
        out.append("text " + canon(dict(
            s=text.get_text(), pos=text.get_position(), ha=text.get_ha(), va=text.get_va(),
            bbox=None if bbox is None else (bbox.get_facecolor(), bbox.get_edgecolor(),
                                            type(bbox.get_boxstyle()).__name__, bbox.get_boxstyle().pad))))
    legend = ax.get_legend()
    if legend is None:
        out.append("legend=None")
    else:
        out.append("legend " + canon(dict(
            labels=[t.get_text() for t in legend.get_texts()],
            handles=[type(h).__name__ for h in legend.legend_handles],
            loc=legend._loc, ncols=legend._ncols,
            anchor=None if legend._bbox_to_anchor is None else
            [round(float(v), 6) for v in legend.get_bbox_to_anchor().bounds])))
    return "\n".join(out)


def describe_figure(fig):
    out = [f"size={tuple(float(v) for v in fig.get_size_inches())} dpi={fig.get_dpi()}"]
    out.append("n_axes=%d" % len(fig.axes))
    for text in fig.texts:
        bbox = text.get_bbox_patch()
        out.append("figtext " + canon(dict(
            s=text.get_text(), pos=text.get_position(),
            bbox=None if bbox is None else (bbox.get_facecolor(), bbox.get_edgecolor()))))
    for ax in fig.axes:
        out.append(describe_axes(ax))
    buf = io.BytesIO()
    fig.savefig(buf, format="png", metadata={"Software": None})
    out.append("png=" + hashlib.sha256(buf.getvalue()).hexdigest())
    # describing after rendering catches draw-time state too (tick labels).
    out.append("post-draw xticklabels=" + repr(
        [[t.get_text() for t in ax.get_xticklabels()] for ax in fig.axes]))
    return "\n".join(out)


def describe_return(ret):
    """Structure of return value, with identity of figures / axes."""
    def walk(v):
        if isinstance(v, tuple):
            return "(" + ", ".join(walk(x) for x in v) + ")"
        if isinstance(v, list):
            return "[" + ", ".join(walk(x) for x in v) + "]"
        if isinstance(v, np.ndarray):
            return "ndarray[" + ", ".join(walk(x) for x in v.ravel()) + "]"
        if isinstance(v, matplotlib.figure.Figure):
            return "Figure#%d" % v.number
        if isinstance(v, matplotlib.axes.Axes):
            return "%s@fig%d#%d" % (type(v).__name__, v.figure.number, v.figure.axes.index(v))
        return repr(v)
    return walk(ret)


def describe_hvsr_state(hvsr):
    if isinstance(hvsr, hvsrpy.HvsrAzimuthal):
        return "AZ[" + "; ".join(describe_hvsr_state(h) for h in hvsr.hvsrs) + "]" + canon(hvsr.meta)
    if isinstance(hvsr, hvsrpy.HvsrTraditional):
        return canon(dict(
            w=hvsr.valid_window_boolean_mask, p=hvsr.valid_peak_boolean_mask,
            wt=type(hvsr.valid_window_boolean_mask).__name__,
            pt=type(hvsr.valid_peak_boolean_mask).__name__,
            f=hvsr.frequency, a=hvsr.amplitude, pf=hvsr._main_peak_frq, pa=hvsr._main_peak_amp,
            meta=hvsr.meta, attrs=sorted(vars(hvsr))))
    return canon(dict(f=hvsr.frequency, a=hvsr.amplitude, meta=hvsr.meta, attrs=sorted(vars(hvsr))))


def styler_repr(self):
    rows = ["STYLER"]
    rows.append(self.data.to_csv(float_format="%.17g"))
    rows.append(repr(list(self.data.columns)) + repr(list(self.data.index)) + repr(self.data.dtypes.tolist()))
    rows.append(repr(self.caption))
    rows.append(repr(self.table_styles))
    rows.append(self.to_string())
    rows.append(self.to_html(table_uuid="fixed"))
    rows.append(repr(pd.get_option("display.max_colwidth")))
    return "\n".join(rows)


Styler.__repr__ = styler_repr
Styler.__str__ = styler_repr


def call(name, func, *args, **kwargs):
    """Call func; record stdout, exception type, return structure, open figures, globals."""
    plt.close("all")
    kwargs_before = canon(copy.deepcopy({k: v for k, v in kwargs.items()
                                         if isinstance(v, (dict, list, np.ndarray))}))
    defaults_before = canon(pp.DEFAULT_KWARGS)
    style_before = canon(dict(pp.HVSRPY_MPL_STYLE))
    stdout = io.StringIO()
    ret = None
    with contextlib.redirect_stdout(stdout):
        try:
            ret = func(*args, **kwargs)
            outcome = "ok " + describe_return(ret)
        except BaseException as exc:  # noqa
            outcome = "raised " + type(exc).__name__
    text = [outcome, "stdout:" + stdout.getvalue()]
    text.append("fignums=" + repr(plt.get_fignums()))
    for num in plt.get_fignums():
        text.append(describe_figure(plt.figure(num)))
    text.append("kwargs_unchanged=" + repr(kwargs_before == canon(
        {k: v for k, v in kwargs.items() if isinstance(v, (dict, list, np.ndarray))})))
    text.append("defaults_unchanged=" + repr(defaults_before == canon(pp.DEFAULT_KWARGS)))
    text.append("style_unchanged=" + repr(style_before == canon(dict(pp.HVSRPY_MPL_STYLE))))
    record(name, "\n".join(text))
    return ret


# --------------------------------------------------------------------------
# inputs
# --------------------------------------------------------------------------

def synthetic_traditional(seed, n_curves=12, n_frq=48, reject=(), peak_only_reject=(), meta=None):
    rng = np.random.default_rng(seed)
    frq = np.geomspace(0.2, 40, n_frq)
    f0 = rng.lognormal(np.log(2.0), 0.15, size=n_curves)
    a0 = rng.lognormal(np.log(4.0), 0.2, size=n_curves)
    amp = 1 + (a0[:, None] - 1) * np.exp(-(np.log(frq[None, :] / f0[:, None]) ** 2) / 0.08)
    amp *= rng.lognormal(0, 0.04, size=amp.shape)
    hvsr = hvsrpy.HvsrTraditional(frq, amp, meta=meta)
    for idx in reject:
        hvsr.valid_window_boolean_mask[idx] = False
        hvsr.valid_peak_boolean_mask[idx] = False
    for idx in peak_only_reject:
        hvsr.valid_peak_boolean_mask[idx] = False
    return hvsr


def synthetic_azimuthal(seed, n_az=6, first_rejected=False, **kwargs):
    azimuths = np.arange(0, 180, 180 / n_az)
    hvsrs = []
    for i, _ in enumerate(azimuths):
        reject = (1, 4) if i % 2 else (2,)
        if first_rejected and i == 0:
            reject = tuple(range(kwargs.get("n_curves", 12)))[:-1]
        hvsrs.append(synthetic_traditional(seed + i, reject=reject, **kwargs))
    return hvsrpy.HvsrAzimuthal(hvsrs, azimuths, meta={"who": "equivalence"})


def synthetic_diffuse(seed):
    rng = np.random.default_rng(seed)
    frq = np.geomspace(0.2, 40, 60)
    amp = 1 + 3 * np.exp(-(np.log(frq / 1.7) ** 2) / 0.1) * rng.lognormal(0, 0.01, size=frq.shape)
    return hvsrpy.HvsrDiffuseField(frq, amp, meta={"k": 1})


def real_records_and_hvsr():
    pre = hvsrpy.settings.HvsrPreProcessingSettings()
    pre.window_length_in_seconds = 150
    pro = hvsrpy.settings.HvsrTraditionalProcessingSettings()
    pro.smoothing = dict(operator="konno_and_ohmachi", bandwidth=40,
                         center_frequencies_in_hz=np.geomspace(0.3, 40, 40))
    srecords = hvsrpy.read([[str(DATA / "UT.STN11.A2_C50.miniseed")]])
    srecords = hvsrpy.preprocess(srecords, pre)
    hvsr = hvsrpy.process(srecords, pro)
    hvsr.meta.pop("file name(s)", None)
    hvsrpy.frequency_domain_window_rejection(hvsr, n=1.0)
    assert 0 < hvsr.valid_window_boolean_mask.sum() < hvsr.n_curves
    return srecords, hvsr


# --------------------------------------------------------------------------
# scenarios : postprocessing
# --------------------------------------------------------------------------

def run_postprocessing():
    record("module.__all__", repr(pp.__all__))
    record("module.DEFAULT_KWARGS", canon(pp.DEFAULT_KWARGS))
    record("module.HVSRPY_MPL_STYLE", canon(pp.HVSRPY_MPL_STYLE))
    record("module.public_names", repr(sorted(
        n for n in dir(pp) if not n.startswith("_") and n in (
            "plt", "np", "pd", "display", "cm", "mpl", "stats", "Axes3D", "make_axes_locatable"))))

    trad = synthetic_traditional(1, reject=(0, 5, 7), peak_only_reject=(3,), meta={"a": 1, "b": [1, 2]})
    trad_all_valid = synthetic_traditional(2)
    trad_one = synthetic_traditional(3, n_curves=1)
    trad_first_rejected = synthetic_traditional(4, reject=(0, 1))
    azim = synthetic_azimuthal(10)
    azim_first_rejected = synthetic_azimuthal(20, first_rejected=True)
    azim_big = synthetic_azimuthal(30, n_az=12)
    azim_big.hvsrs[3].amplitude *= 4.0   # colourbar branch > 14
    azim_big.update_peaks_bounded()
    azim_mid = synthetic_azimuthal(40, n_az=4)
    for h in azim_mid.hvsrs:
        h.amplitude *= 2.2               # colourbar branch 6.5 .. 14
    azim_mid.update_peaks_bounded()
    diff = synthetic_diffuse(5)

    objects = dict(trad=trad, trad_all_valid=trad_all_valid, trad_one=trad_one,
                   trad_first_rejected=trad_first_rejected, azim=azim,
                   azim_first_rejected=azim_first_rejected, diff=diff)
    state0 = {k: describe_hvsr_state(v) for k, v in objects.items()}

    # ---- plot_single_panel_hvsr_curves
    for key, obj in objects.items():
        call(f"single.{key}.default", hvsrpy.plot_single_panel_hvsr_curves, obj)
        if key != "diff":
            call(f"single.{key}.normal", hvsrpy.plot_single_panel_hvsr_curves, obj,
                 distribution_mc="normal", distribution_fn="normal",
                 plot_invalid_curves=True, plot_peak_individual_invalid_curves=True)
    flags = ["plot_valid_curves", "plot_invalid_curves", "plot_mean_curve", "plot_frequency_std",
             "plot_peak_mean_curve", "plot_peak_individual_valid_curves",
             "plot_peak_individual_invalid_curves"]
    for i, flag in enumerate(flags):
        kw = {f: (f == flag) for f in flags}
        call(f"single.trad.only_{flag}", hvsrpy.plot_single_panel_hvsr_curves, trad, **kw)
        call(f"single.azim.only_{flag}", hvsrpy.plot_single_panel_hvsr_curves, azim, **kw)
        kw = {f: (f != flag) for f in flags}
        call(f"single.trad.all_but_{flag}", hvsrpy.plot_single_panel_hvsr_curves, trad, **kw)
    call("single.trad.subplots_kwargs", hvsrpy.plot_single_panel_hvsr_curves, trad,
         subplots_kwargs=dict(figsize=(5, 3), dpi=80))
    call("single.trad.subplots_kwargs_empty", hvsrpy.plot_single_panel_hvsr_curves, trad,
         subplots_kwargs={})

    def with_ax(obj, **kw):
        fig, ax = plt.subplots(figsize=(4, 3), dpi=100)
        ax.set_ylim(0, 7.3)
        ret = hvsrpy.plot_single_panel_hvsr_curves(obj, ax=ax, subplots_kwargs=dict(bogus=1), **kw)
        return ret, ret is ax
    call("single.trad.with_ax", with_ax, trad)
    call("single.azim.with_ax", with_ax, azim, plot_invalid_curves=True)
    call("single.diff.with_ax", with_ax, diff)

    def twice_same_ax(obj):
        fig, ax = plt.subplots()
        hvsrpy.plot_single_panel_hvsr_curves(obj, ax=ax)
        return hvsrpy.plot_single_panel_hvsr_curves(obj, ax=ax, distribution_mc="normal")
    call("single.trad.twice_same_ax", twice_same_ax, trad)
    call("single.bad_type", hvsrpy.plot_single_panel_hvsr_curves, "not an hvsr")
    call("single.bad_type_no_curves", hvsrpy.plot_single_panel_hvsr_curves, 3.0,
         plot_valid_curves=False)
    call("single.bad_distribution", hvsrpy.plot_single_panel_hvsr_curves, trad,
         distribution_fn="exotic")
    call("single.bad_distribution_mc", hvsrpy.plot_single_panel_hvsr_curves, trad,
         distribution_mc="exotic")

    # runtime modification of the public DEFAULT_KWARGS must be honoured.
    saved = copy.deepcopy(pp.DEFAULT_KWARGS)
    try:
        pp.DEFAULT_KWARGS["individual_valid_hvsr_curve"]["color"] = "tab:blue"
        pp.DEFAULT_KWARGS["mean_hvsr_curve"]["linewidth"] = 2.5
        pp.DEFAULT_KWARGS["peak_individual_invalid_hvsr_curve"]["marker"] = "x"
        pp.DEFAULT_KWARGS["nth_std_frequency_range_lognormal"]["alpha"] = 0.5
        pp.DEFAULT_KWARGS["peak_mean_hvsr_curve_azimuthal_2d"]["marker"] = "^"
        call("single.trad.modified_defaults", hvsrpy.plot_single_panel_hvsr_curves, trad,
             plot_invalid_curves=True, plot_peak_individual_invalid_curves=True)
        call("azimuthal_2d.modified_defaults", hvsrpy.plot_azimuthal_contour_2d, azim)
    finally:
        for k in list(pp.DEFAULT_KWARGS):
            pp.DEFAULT_KWARGS[k] = saved[k]
    # DEFAULT_KWARGS entry *replaced* (new dict object) at run time.
    old = pp.DEFAULT_KWARGS["individual_valid_hvsr_curve"]
    try:
        pp.DEFAULT_KWARGS["individual_valid_hvsr_curve"] = dict(color="green", label="mine", linewidth=1)
        srecords_small = None
        call("single.trad.replaced_default_entry", hvsrpy.plot_single_panel_hvsr_curves, trad)
    finally:
        pp.DEFAULT_KWARGS["individual_valid_hvsr_curve"] = old

    # ---- real data : recordings and pre/post rejection
    srecords, real = real_records_and_hvsr()
    record("real.state", describe_hvsr_state(real))
    mask = real.valid_window_boolean_mask
    call("records.default", hvsrpy.plot_seismic_recordings_3c, srecords)
    call("records.single_record", hvsrpy.plot_seismic_recordings_3c, srecords[0])
    call("records.mask_array", hvsrpy.plot_seismic_recordings_3c, srecords,
         valid_window_boolean_mask=mask)
    call("records.mask_list", hvsrpy.plot_seismic_recordings_3c, srecords,
         valid_window_boolean_mask=[bool(i % 2) for i in range(len(srecords))])
    call("records.not_normalized", hvsrpy.plot_seismic_recordings_3c, srecords,
         valid_window_boolean_mask=mask, normalize=False)
    call("records.subplots_kwargs", hvsrpy.plot_seismic_recordings_3c, srecords[:3],
         subplots_kwargs=dict(figsize=(6, 5), sharey=False))
    call("records.subplots_kwargs_bad_rows", hvsrpy.plot_seismic_recordings_3c, srecords[:3],
         subplots_kwargs=dict(nrows=2))
    call("records.mask_wrong_length", hvsrpy.plot_seismic_recordings_3c, srecords,
         valid_window_boolean_mask=[True, False])
    call("records.tuple_of_records", hvsrpy.plot_seismic_recordings_3c, tuple(srecords[:2]))

    def records_with_axs(n, **kw):
        fig, axs = plt.subplots(nrows=n)
        ret = hvsrpy.plot_seismic_recordings_3c(srecords[:4], axs=axs, **kw)
        return ret, ret is axs
    call("records.with_axs", records_with_axs, 3)
    call("records.with_axs_tuple", lambda: hvsrpy.plot_seismic_recordings_3c(
        srecords[:2], axs=tuple(plt.subplots(nrows=3)[1])))
    call("records.with_4_axs", records_with_axs, 4)

    # scaled / zeroed copies to visit the normalisation branches.
    scaled = [copy.deepcopy(r) for r in srecords[:3]]
    scaled[1].ew.amplitude *= 7.5
    scaled[2].vt.amplitude *= -11.0
    call("records.scaled", hvsrpy.plot_seismic_recordings_3c, scaled)
    zeroed = [copy.deepcopy(r) for r in srecords[:2]]
    for r in zeroed:
        for comp in ("ns", "ew", "vt"):
            getattr(r, comp).amplitude[:] = 0.
    call("records.zeroed", hvsrpy.plot_seismic_recordings_3c, zeroed)
    record("records.inputs_unchanged", canon([
        [arr(getattr(r, c).amplitude) for c in ("ns", "ew", "vt")] for r in srecords]))

    def pre_post(srecs, hvsr, **kw):
        if not isinstance(hvsr, hvsrpy.HvsrTraditional):
            return hvsrpy.plot_pre_and_post_rejection(srecs, hvsr, **kw)
        w_before, p_before = hvsr.valid_window_boolean_mask, hvsr.valid_peak_boolean_mask
        state_before = describe_hvsr_state(hvsr)
        try:
            ret = hvsrpy.plot_pre_and_post_rejection(srecs, hvsr, **kw)
        finally:
            print("masks", hvsr.valid_window_boolean_mask.tolist(), hvsr.valid_peak_boolean_mask.tolist())
            print("same state", state_before == describe_hvsr_state(hvsr))
            print("window mask is same object", hvsr.valid_window_boolean_mask is w_before)
            print("peak mask is same object", hvsr.valid_peak_boolean_mask is p_before)
            print("window mask shares memory", np.shares_memory(hvsr.valid_window_boolean_mask, w_before))
            print("peak mask shares memory", np.shares_memory(hvsr.valid_peak_boolean_mask, p_before))
            print("flags", hvsr.valid_window_boolean_mask.flags["OWNDATA"],
                  hvsr.valid_window_boolean_mask.flags["WRITEABLE"],
                  hvsr.valid_peak_boolean_mask.flags["OWNDATA"])
        return ret
    call("prepost.real.default", pre_post, srecords, real)
    call("prepost.real.normal", pre_post, srecords, real,
         distribution_mc="normal", distribution_fn="normal")
    call("prepost.real.again", pre_post, srecords, real)
    record("prepost.real.state_after", describe_hvsr_state(real))
    call("prepost.azimuthal", pre_post, srecords, azim)
    call("prepost.diffuse", pre_post, srecords, diff)
    call("prepost.wrong_records", pre_post, srecords[:3], real)
    record("prepost.real.state_after_failure", describe_hvsr_state(real))
    call("prepost.bad_distribution", pre_post, srecords, real, distribution_fn="exotic")
    record("prepost.real.state_after_failure2", describe_hvsr_state(real))
    # list-typed masks supplied by the user
    real_list = copy.deepcopy(real)
    real_list.valid_window_boolean_mask = np.array(real.valid_window_boolean_mask.tolist())
    call("prepost.real.copy", pre_post, srecords, real_list)
    # peak rejected while its window is kept, and the other way round.
    real_peak = copy.deepcopy(real)
    keep = np.flatnonzero(real_peak.valid_window_boolean_mask)
    drop = np.flatnonzero(~real_peak.valid_window_boolean_mask)
    real_peak.valid_peak_boolean_mask[keep[0]] = False
    real_peak.valid_peak_boolean_mask[drop[0]] = True
    call("prepost.real.peak_differs", pre_post, srecords, real_peak)
    call("single.real.peak_differs", hvsrpy.plot_single_panel_hvsr_curves, real_peak,
         plot_invalid_curves=True, plot_peak_individual_invalid_curves=True)
    # all windows rejected but one / none rejected.
    real_none = copy.deepcopy(real)
    real_none.valid_window_boolean_mask[:] = True
    real_none.valid_peak_boolean_mask[:] = True
    call("prepost.real.none_rejected", pre_post, srecords, real_none)

    # ---- summaries
    for key, obj in objects.items():
        call(f"summary.{key}.default", hvsrpy.summarize_hvsr_statistics, obj)
        call(f"summary.{key}.normal", hvsrpy.summarize_hvsr_statistics, obj,
             distribution_mc="normal", distribution_fn="normal")
        call(f"summary.{key}.mixed", hvsrpy.summarize_hvsr_statistics, obj,
             distribution_mc="normal", distribution_fn="lognormal")
    call("summary.real", hvsrpy.summarize_hvsr_statistics, real)
    call("summary.bad_type", hvsrpy.summarize_hvsr_statistics, [1, 2, 3])
    call("summary.none", hvsrpy.summarize_hvsr_statistics, None)
    call("summary.bad_mc", hvsrpy.summarize_hvsr_statistics, trad, distribution_mc="exotic")
    record("summary.option_restored", repr(pd.get_option("display.max_colwidth")))

    for dist in ("lognormal", "normal", "exotic", None):
        call(f"spatial_summary.{dist}", hvsrpy.summarize_spatial_statistics, 1.2345678, 0.2345, dist)
        call(f"spatial_summary.np.{dist}", hvsrpy.summarize_spatial_statistics,
             np.float64(0.731), np.float64(0.0412), dist)
    call("spatial_summary.int", hvsrpy.summarize_spatial_statistics, 2, 1, "lognormal")
    call("spatial_summary.int_normal", hvsrpy.summarize_spatial_statistics, 2, 1, "normal")

    # ---- azimuthal
    for key, obj in dict(azim=azim, azim_first_rejected=azim_first_rejected,
                         azim_big=azim_big, azim_mid=azim_mid).items():
        call(f"az2d.{key}.default", hvsrpy.plot_azimuthal_contour_2d, obj)
        call(f"az2d.{key}.normal_nopeak", hvsrpy.plot_azimuthal_contour_2d, obj,
             distribution_mc="normal", plot_mean_curve_peak_by_azimuth=False)
        call(f"az3d.{key}.default", hvsrpy.plot_azimuthal_contour_3d, obj)
        call(f"az3d.{key}.camera", hvsrpy.plot_azimuthal_contour_3d, obj, distribution_mc="normal",
             plot_mean_curve_peak_by_azimuth=False, camera_elevation=20, camera_azimuth=200,
             camera_distance=10)
        call(f"azsummary.{key}.default", hvsrpy.plot_azimuthal_summary, obj)
    call("az2d.kwargs", hvsrpy.plot_azimuthal_contour_2d, azim,
         subplots_kwargs=dict(figsize=(5, 4)), contourf_kwargs=dict(levels=4, cmap="viridis"))

    def az2d_with_ax(pass_fig):
        fig, ax = plt.subplots()
        return hvsrpy.plot_azimuthal_contour_2d(azim, ax=ax, fig=fig if pass_fig else None,
                                                subplots_kwargs=dict(bogus=1))
    call("az2d.with_ax", az2d_with_ax, False)
    call("az2d.with_ax_and_fig", az2d_with_ax, True)
    call("az2d.fig_only", lambda: hvsrpy.plot_azimuthal_contour_2d(azim, fig=plt.figure()))

    def az3d_with_ax():
        fig = plt.figure()
        ax = fig.add_subplot(projection="3d")
        return hvsrpy.plot_azimuthal_contour_3d(azim, ax=ax)
    call("az3d.with_ax", az3d_with_ax)
    call("az2d.traditional", hvsrpy.plot_azimuthal_contour_2d, trad)
    call("az2d.diffuse", hvsrpy.plot_azimuthal_contour_2d, diff)
    call("az3d.traditional", hvsrpy.plot_azimuthal_contour_3d, trad)
    call("azsummary.traditional", hvsrpy.plot_azimuthal_summary, trad)
    flags = ["plot_mean_curve_peak_by_azimuth", "plot_valid_curves", "plot_invalid_curves",
             "plot_mean_curve", "plot_frequency_std", "plot_peak_mean_curve",
             "plot_peak_individual_valid_curves", "plot_peak_individual_invalid_curves"]
    defaults = [True, True, False, True, True, True, True, False]
    for flag, default in zip(flags, defaults):
        call(f"azsummary.flip_{flag}", hvsrpy.plot_azimuthal_summary, azim, **{flag: not default})
    call("azsummary.normal", hvsrpy.plot_azimuthal_summary, azim,
         distribution_mc="normal", distribution_fn="normal", plot_invalid_curves=True,
         plot_peak_individual_invalid_curves=True)
    call("azsummary.no_mean_no_peak", hvsrpy.plot_azimuthal_summary, azim,
         plot_mean_curve=False, plot_peak_mean_curve=False)

    # ---- voronoi
    rng = np.random.default_rng(77)
    coords = rng.uniform(0, 100, size=(7, 2))
    boundary = np.array([[0., 0.], [100., 0.], [100., 100.], [0., 100.]])
    spatial = hvsrpy.HvsrSpatial(coords)
    try:
        vertices = spatial.bounded_voronoi(boundary)
        if isinstance(vertices, tuple):
            vertices = vertices[-1] if not isinstance(vertices[0], np.ndarray) else list(vertices)
    except Exception:
        vertices = None
    if vertices is None or not all(np.ndim(v) == 2 for v in vertices):
        vertices = [c + np.array([[-5, -5], [5, -5], [5, 5], [-5, 5.]]) for c in coords]
    mean_fn = rng.lognormal(0, 0.4, size=len(coords))
    call("voronoi.default", hvsrpy.plot_voronoi, coords, mean_fn, vertices, boundary)
    call("voronoi.fig_kwargs", hvsrpy.plot_voronoi, coords, mean_fn, vertices, boundary,
         fig_kwargs=dict(figsize=(5, 5), dpi=90))
    call("voronoi.list_mean", hvsrpy.plot_voronoi, coords, mean_fn.tolist(), vertices, boundary)
    call("voronoi.with_ax", lambda: hvsrpy.plot_voronoi(coords, mean_fn, vertices, boundary,
                                                       ax=plt.subplots()[1], fig_kwargs=dict(bogus=1)))
    call("voronoi.bad_boundary", hvsrpy.plot_voronoi, coords, mean_fn, vertices, boundary.tolist())

    # ---- nothing above may have modified the inputs.
    state1 = {k: describe_hvsr_state(v) for k, v in objects.items()}
    record("objects.unchanged", repr({k: state0[k] == state1[k] for k in state0}))
    record("objects.state", repr(state1))

    # ---- window rejection's plotting hooks go through postprocessing as well.
    try:
        from hvsrpy import window_rejection
        record("window_rejection.hooks", repr((window_rejection.plt is plt,
               window_rejection.plot_single_panel_hvsr_curves is pp.plot_single_panel_hvsr_curves)))
    except Exception as exc:  # pragma: no cover
        record("window_rejection.hooks", type(exc).__name__)


# --------------------------------------------------------------------------
# scenarios : command line
# --------------------------------------------------------------------------

TIME_RE = re.compile(r"completed in \d+\.\d{3} seconds\.")


def run_cli_case(name, workdir, args, expect_files=True):
    before = set(os.listdir(workdir))
    code = ("import sys; sys.path.insert(0, %r); import warnings; warnings.simplefilter('ignore'); "
            "from hvsrpy.cli import cli; cli()" % str(ROOT))
    env = dict(os.environ, MPLBACKEND="Agg", PYTHONWARNINGS="ignore", PYTHONDONTWRITEBYTECODE="1")
    env.pop("PYTHONPATH", None)
    proc = subprocess.run([sys.executable, "-c", code, *args], cwd=workdir, env=env,
                          capture_output=True, text=True, timeout=1200)
    stdout = sorted(TIME_RE.sub("completed in <T> seconds.", line)
                    for line in proc.stdout.splitlines())
    n_timed = len(TIME_RE.findall(proc.stdout))
    stderr_lines = [line for line in proc.stderr.strip().splitlines() if line.strip()]
    last = stderr_lines[-1] if stderr_lines else ""
    if proc.returncode not in (0, 2):
        # keep only the exception type; messages may hold addresses / pids.
        last = last.split(":")[0]
    elif proc.returncode == 0:
        last = ""
    after = set(os.listdir(workdir))
    new = sorted(after - before)
    files = []
    for fname in new:
        path = os.path.join(workdir, fname)
        data = pathlib.Path(path).read_bytes()
        files.append((fname, len(data), hashlib.sha256(data).hexdigest()))
        os.remove(path)
    record(f"cli.{name}", repr(dict(returncode=proc.returncode, stdout=stdout, n_timed=n_timed,
                                    stderr_tail=last, files=files,
                                    usage=[l for l in stderr_lines if proc.returncode == 2])))


def run_cli():
    # fixed location: absolute paths end up in stdout and in the csv header.
    workdir = os.path.join(tempfile.gettempdir(), "hvsrpy_equivalence_workdir")
    shutil.rmtree(workdir, ignore_errors=True)
    os.mkdir(workdir)
    try:
        names = ["UT.STN11.A2_C50.miniseed", "UT.STN11.A2_C150.miniseed", "UT.STN11.A2_C300.miniseed"]
        for n in names:
            shutil.copy(DATA / n, os.path.join(workdir, n))
        os.mkdir(os.path.join(workdir, "sub"))
        shutil.copy(DATA / names[0], os.path.join(workdir, "sub", "nested.record.miniseed"))
        with open(os.path.join(workdir, "damaged.miniseed"), "wb") as f:
            f.write((DATA / names[0]).read_bytes()[:5000])
        with open(os.path.join(workdir, "garbage.miniseed"), "wb") as f:
            f.write(b"this is not a seismic record\n" * 20)

        pre = hvsrpy.settings.HvsrPreProcessingSettings()
        pre.window_length_in_seconds = 150
        pre.save(os.path.join(workdir, "pre.json"))
        pro = hvsrpy.settings.HvsrTraditionalProcessingSettings()
        pro.smoothing = dict(operator="konno_and_ohmachi", bandwidth=40,
                             center_frequencies_in_hz=np.geomspace(0.3, 40, 32).tolist())
        pro.save(os.path.join(workdir, "pro.json"))
        paz = hvsrpy.settings.HvsrAzimuthalProcessingSettings()
        paz.smoothing = dict(operator="konno_and_ohmachi", bandwidth=40,
                             center_frequencies_in_hz=np.geomspace(0.3, 40, 24).tolist())
        paz.azimuths_in_degrees = np.arange(0, 180, 45).tolist()
        paz.save(os.path.join(workdir, "paz.json"))
        pdf = hvsrpy.settings.HvsrDiffuseFieldProcessingSettings()
        pdf.smoothing = dict(operator="konno_and_ohmachi", bandwidth=40,
                             center_frequencies_in_hz=np.geomspace(0.3, 40, 24).tolist())
        pdf.save(os.path.join(workdir, "pdf.json"))
        with open(os.path.join(workdir, "broken.json"), "w") as f:
            f.write("{ not json")

        settings = ["--preprocessing_settings_file", "pre.json", "--processing_settings_file", "pro.json"]
        run_cli_case("three_files_default_nproc", workdir, [*names, *settings])
        run_cli_case("three_files_nproc2", workdir, [*names, *settings, "--nproc", "2"])
        run_cli_case("three_files_nproc1", workdir, [*names, *settings, "--nproc", "1"])
        run_cli_case("three_files_nproc8", workdir, [*names, *settings, "--nproc", "8"])
        run_cli_case("one_file", workdir, [names[0], *settings, "--nproc", "1"])
        run_cli_case("nested_file", workdir, ["sub/nested.record.miniseed", *settings, "--nproc", "1"])
        run_cli_case("absolute_file", workdir,
                     [os.path.join(workdir, "sub", "nested.record.miniseed"), *settings, "--nproc", "2"])
        run_cli_case("no_figure", workdir, [*names[:2], *settings, "--no_figure", "--nproc", "2"])
        run_cli_case("no_file", workdir, [*names[:2], *settings, "--no_file", "--nproc", "2"])
        run_cli_case("no_figure_no_file", workdir, [*names, *settings, "--no_figure", "--no_file"])
        run_cli_case("no_figure_no_file_bad_settings", workdir,
                     [*names, "--no_figure", "--no_file"])
        run_cli_case("ymax_normal", workdir, [names[1], *settings, "--ymax", "4.5",
                                             "--distribution_fn", "normal",
                                             "--distribution_mc", "normal", "--nproc", "1"])
        run_cli_case("mixed_distributions", workdir, [names[1], *settings, "--no_figure",
                                                     "--distribution_fn", "normal", "--nproc", "3"])
        run_cli_case("options_first", workdir, [*settings, "--nproc", "2", "--no_figure", *names[:2]])
        run_cli_case("azimuthal", workdir, [names[0], "--preprocessing_settings_file", "pre.json",
                                           "--processing_settings_file", "paz.json", "--nproc", "1"])
        run_cli_case("diffuse", workdir, [names[0], "--preprocessing_settings_file", "pre.json",
                                         "--processing_settings_file", "pdf.json", "--nproc", "1"])
        run_cli_case("repeated_file", workdir, [names[0], names[0], *settings, "--nproc", "2",
                                               "--no_figure"])
        # error paths
        run_cli_case("no_files", workdir, [*settings])
        run_cli_case("no_settings", workdir, [names[0]])
        run_cli_case("only_pre", workdir, [names[0], "--preprocessing_settings_file", "pre.json"])
        run_cli_case("missing_settings_file", workdir,
                     [names[0], "--preprocessing_settings_file", "nope.json",
                      "--processing_settings_file", "pro.json"])
        run_cli_case("broken_settings_file", workdir,
                     [names[0], "--preprocessing_settings_file", "pre.json",
                      "--processing_settings_file", "broken.json"])
        run_cli_case("nproc_zero", workdir, [names[0], *settings, "--nproc", "0"])
        run_cli_case("nproc_negative", workdir, [names[0], *settings, "--nproc", "-2"])
        run_cli_case("nproc_not_int", workdir, [names[0], *settings, "--nproc", "two"])
        run_cli_case("bad_distribution", workdir, [names[0], *settings, "--distribution_fn", "gamma"])
        run_cli_case("unknown_option", workdir, [names[0], *settings, "--frobnicate"])
        run_cli_case("missing_record", workdir, ["absent.miniseed", *settings, "--nproc", "1"])
        run_cli_case("damaged_record", workdir, ["damaged.miniseed", *settings, "--nproc", "1"])
        run_cli_case("garbage_record", workdir, ["garbage.miniseed", names[0], *settings,
                                                "--nproc", "1", "--no_figure"])
        run_cli_case("garbage_record_last", workdir, [names[0], "garbage.miniseed", *settings,
                                                     "--nproc", "2", "--no_figure"])
        run_cli_case("swapped_settings", workdir,
                     [names[0], "--preprocessing_settings_file", "pro.json",
                      "--processing_settings_file", "pre.json", "--nproc", "1"])
        run_cli_case("help", workdir, ["--help"])
        record("cli.leftovers", repr(sorted(os.listdir(workdir))))
    finally:
        shutil.rmtree(workdir, ignore_errors=True)

    # in-process facts about the command object.
    from hvsrpy import cli as cli_module
    command = cli_module.cli
    record("cli.command", repr((type(command).__name__, command.name,
                                [(p.name, p.opts, repr(p.default), p.type.name, getattr(p, "is_flag", None),
                                  getattr(p, "nargs", None), getattr(p, "help", None))
                                 for p in command.params], command.help)))


def main():
    run_postprocessing()
    if "--no-cli" not in sys.argv:
        run_cli()
    overall = hashlib.sha256("\n".join(f"{n} {d}" for n, d in RECORDS).encode()).hexdigest()
    if "--list" in sys.argv:
        for n, d in RECORDS:
            print(d, n)
    print(f"scenarios: {len(RECORDS)}")
    print(f"DIGEST {overall}")


if __name__ == "__main__":
    main()
