"""Equivalence digest for the recording classes of hvsrpy.

Run as
    cd /tmp/r14/ctlT && PYTHONPATH=<tree> MPLBACKEND=Agg /venv/bin/python _control/equiv.py
and compare the single ``DIGEST <sha256>`` line between trees.

Everything observable through the public interface of ``TimeSeries`` and
``SeismicRecording3C`` is fed to a sha256: returned values (bit patterns
of arrays, types of scalars), exceptions (type, text, type of the chained
exception), warnings, log records, the bytes of written files, the state
of objects after every call (including after failed calls and repeated
calls), and the sharing of memory between inputs, outputs and earlier
states.
"""

import decimal
import fractions
import hashlib
import inspect
import io
import json
import logging
import os
import pathlib
import random
import re
import shutil
import sys
import tempfile
import types
import warnings

import numpy as np
import obspy

import hvsrpy
from hvsrpy import TimeSeries, SeismicRecording3C
import hvsrpy.timeseries as ts_module
import hvsrpy.seismic_recording_3c as rec_module

HASH = hashlib.sha256()
N_EMITTED = [0]
TRACE = os.environ.get("EQUIV_TRACE")  # optional: path of a text trace
_trace_file = open(TRACE, "w") if TRACE else None

TMP = None  # set in main()

_ID = re.compile(r" at (?:0x[0-9a-fA-F]+|\d+)")


def clean(text):
    text = _ID.sub(" at <id>", str(text))
    if TMP is not None:
        text = text.replace(TMP, "<TMP>")
    return text


def emit(*parts):
    line = repr(parts)
    HASH.update(line.encode("utf8", "backslashreplace"))
    HASH.update(b"\n")
    N_EMITTED[0] += 1
    if _trace_file is not None:
        _trace_file.write(line[:2000] + "\n")


# --------------------------------------------------------------------------
# canonical descriptions


def describe(obj, depth=0):
    if depth > 8:
        return ("deep",)
    if isinstance(obj, TimeSeries):
        d = vars(obj)
        return ("TS", type(obj).__name__, tuple(d.keys()),
                tuple(describe(v, depth+1) for v in d.values()))
    if isinstance(obj, SeismicRecording3C):
        d = vars(obj)
        return ("REC", type(obj).__name__, tuple(d.keys()),
                tuple(describe(v, depth+1) for v in d.values()))
    if isinstance(obj, np.ndarray):
        try:
            raw = obj.tobytes()
        except Exception as e:  # object arrays etc.
            raw = repr(obj).encode()
        return ("nd", obj.dtype.str, obj.shape,
                hashlib.sha256(raw).hexdigest()[:24],
                bool(obj.flags.owndata), bool(obj.flags.c_contiguous),
                bool(obj.flags.writeable), obj.base is None)
    if isinstance(obj, np.generic):
        return ("npscalar", type(obj).__name__, repr(obj))
    if isinstance(obj, bool):
        return ("bool", obj)
    if isinstance(obj, float):
        return ("float", repr(obj), obj.hex() if obj == obj and abs(obj) != float("inf") else "")
    if isinstance(obj, int):
        return ("int", obj)
    if isinstance(obj, str):
        return ("str", clean(obj))
    if isinstance(obj, dict):
        return ("dict", type(obj).__name__,
                tuple((describe(k, depth+1), describe(v, depth+1)) for k, v in obj.items()))
    if isinstance(obj, (list, tuple)):
        return (type(obj).__name__, tuple(describe(v, depth+1) for v in obj))
    if obj is None:
        return ("None",)
    return ("other", type(obj).__name__, clean(repr(obj)))


class _Capture(logging.Handler):
    def __init__(self):
        super().__init__(level=logging.DEBUG)
        self.records = []

    def emit(self, record):
        self.records.append((record.levelname, record.name, clean(record.getMessage())))


LOG = _Capture()
for _name in ("hvsrpy", "hvsrpy.timeseries", "hvsrpy.seismic_recording_3c"):
    logging.getLogger(_name).setLevel(logging.DEBUG)
logging.getLogger("hvsrpy").addHandler(LOG)
logging.getLogger("hvsrpy").propagate = False


def call(label, fn, *args, **kwargs):
    """Call and emit everything observable about the call itself."""
    LOG.records.clear()
    with warnings.catch_warnings(record=True) as caught:
        warnings.simplefilter("always")
        try:
            result = fn(*args, **kwargs)
            outcome = ("ok", describe(result))
        except BaseException as e:  # noqa
            if isinstance(e, (KeyboardInterrupt, SystemExit, MemoryError)):
                raise
            result = e
            ctx = type(e.__context__).__name__ if e.__context__ is not None else None
            cause = type(e.__cause__).__name__ if e.__cause__ is not None else None
            outcome = ("exc", type(e).__name__, clean(e), ctx, cause,
                       describe(getattr(e, "args", None)))
    warns = tuple((w.category.__name__, clean(w.message),
                   os.path.basename(w.filename)) for w in caught)
    emit(label, outcome, warns, tuple(LOG.records))
    return result


def shares(a, b):
    try:
        return bool(np.shares_memory(a, b))
    except Exception as e:
        return type(e).__name__


def state(label, obj, *others):
    """Emit the state of obj and its memory relation to other arrays."""
    emit(label, describe(obj))
    arrays = []
    if isinstance(obj, TimeSeries):
        arrays = [getattr(obj, "amplitude", None)]
    elif isinstance(obj, SeismicRecording3C):
        arrays = [getattr(getattr(obj, c, None), "amplitude", None) for c in ("ns", "ew", "vt")]
    rel = []
    for a in arrays:
        for o in others:
            rel.append(shares(a, o) if isinstance(a, np.ndarray) and isinstance(o, np.ndarray) else None)
    for i, a in enumerate(arrays):
        for b in arrays[i+1:]:
            rel.append(shares(a, b) if isinstance(a, np.ndarray) and isinstance(b, np.ndarray) else None)
    emit(label + ":mem", tuple(rel))


# --------------------------------------------------------------------------
# input generators

SPECIAL = [np.nan, np.inf, -np.inf, -0.0, 0.0, 1e308, -1e308, 5e-324, 1e-300]


def rand_amplitude(rng, n, special=0.15):
    kind = rng.integers(0, 5)
    t = np.arange(n)
    if kind == 0:
        a = rng.standard_normal(n)
    elif kind == 1:
        a = np.sin(2*np.pi*rng.uniform(0.01, 0.4)*t) + 0.01*t
    elif kind == 2:
        a = rng.integers(-1000, 1000, n).astype(float)
    elif kind == 3:
        a = rng.standard_normal(n)*10.0**rng.integers(-12, 12)
    else:
        a = np.cumsum(rng.standard_normal(n))
    a = np.array(a, dtype=float)
    if n and rng.random() < special:
        for _ in range(rng.integers(1, 4)):
            a[rng.integers(0, n)] = SPECIAL[rng.integers(0, len(SPECIAL))]
    return a


def rand_dt(rng):
    return [0.01, 0.005, 0.1, 1.0, 0.004, 1/128, 0.02, 1/3, 0.25, 2.0, 0.0078125, 1e-3][rng.integers(0, 12)]


def as_type(rng, value):
    """Return value in an unusual-but-legal (or illegal) argument type."""
    k = rng.integers(0, 14)
    try:
        if k == 0:
            return float(value)
        if k == 1:
            return np.float64(value)
        if k == 2:
            return np.float32(value)
        if k == 3:
            return int(round(value))
        if k == 4:
            return np.int64(round(value))
        if k == 5:
            return fractions.Fraction(value).limit_denominator(1000)
        if k == 6:
            return np.array(value)
        if k == 7:
            return np.array([value])
        if k == 8:
            return np.float16(value)
        if k == 9:
            return decimal.Decimal(repr(float(value)))
        if k == 10:
            return bool(value > 0.5)
        if k == 11:
            return np.longdouble(value)
        if k == 12:
            return np.int16(round(value))
    except (ValueError, OverflowError):
        return float(value)
    return float(value)


def rand_time(rng, n, dt):
    """A trim time: on samples, between samples (ties), off, outside."""
    end = (n-1)*dt if n else 0.0
    k = rng.integers(0, 12)
    i = int(rng.integers(0, max(n, 1)))
    if k == 0:
        return i*dt
    if k == 1:
        return (i+0.5)*dt
    if k == 2:
        return i*dt + rng.uniform(-0.5, 0.5)*dt
    if k == 3:
        return np.arange(max(n, 1))[i]*dt
    if k == 4:
        return float(np.nextafter((i+0.5)*dt, rng.choice([-np.inf, np.inf])))
    if k == 5:
        return end
    if k == 6:
        return 0
    if k == 7:
        return [-dt, -1e-12, end+1e-12, end+dt, end*2+1, -0.0, float(np.nextafter(end, np.inf)), float(np.nextafter(end, -np.inf))][rng.integers(0, 8)]
    if k == 8:
        return [np.nan, np.inf, -np.inf][rng.integers(0, 3)]
    if k == 9:
        return rng.uniform(0, end) if end > 0 else 0.0
    if k == 10:
        return round(rng.uniform(0, end), 2) if end > 0 else 0.0
    return ["1.0", None, [1.0, 2.0], 1+1j][rng.integers(0, 4)]


def maybe_typed(rng, v):
    if isinstance(v, (int, float, np.floating, np.integer)) and not isinstance(v, bool) and rng.random() < 0.4:
        if v != v or abs(v) == np.inf:
            return [float(v), np.float64(v), np.float32(v)][rng.integers(0, 3)]
        return as_type(rng, v)
    return v


def rand_window_length(rng, n, dt):
    rec = max(n-1, 1)*dt
    k = rng.integers(0, 10)
    if k == 0:
        return rec/int(rng.integers(1, 8))
    if k == 1:
        return dt*int(rng.integers(1, max(n, 2)))
    if k == 2:
        return rng.uniform(dt, rec*1.2)
    if k == 3:
        return dt*rng.uniform(0.0, 1.0)  # shorter than a sample: ZeroDivisionError
    if k == 4:
        return [0, 0.0, -1.0, -dt, np.nan, np.inf, -np.inf][rng.integers(0, 7)]
    if k == 5:
        return rec
    if k == 6:
        return rec + dt
    if k == 7:
        return round(rec/3, 2)
    if k == 8:
        return dt
    return ["10", None, [1.0]][rng.integers(0, 3)]


def rand_fcs(rng, dt):
    fnyq = 0.5/dt if dt else 1.0
    k = rng.integers(0, 14)
    lo = rng.uniform(0.01, 0.3)*fnyq
    hi = rng.uniform(0.4, 0.95)*fnyq
    if k == 0:
        return (None, None)
    if k == 1:
        return (lo, None)
    if k == 2:
        return (None, hi)
    if k == 3:
        return (lo, hi)
    if k == 4:
        return [lo, hi]
    if k == 5:
        return np.array([lo, hi])
    if k == 6:
        return (np.float32(lo), np.float64(hi))
    if k == 7:
        return (hi, lo)  # reversed
    if k == 8:
        return (lo, fnyq*1.5)  # above nyquist
    if k == 9:
        return (lo,)
    if k == 10:
        return (lo, hi, hi)
    if k == 11:
        return [None, None]
    if k == 12:
        return (0, hi)
    return [None, 5, "ab", (None, "x"), (-1.0, None)][rng.integers(0, 5)]


def rand_order(rng):
    return [5, 1, 2, 3, 4, 8, np.int64(3), 0, -1, 2.0, "5"][rng.integers(0, 11)]


def rand_detrend(rng):
    return ["linear", "constant", "l", "c", "bogus", None, np.str_("linear"), "Linear", 1][rng.integers(0, 9)]


def rand_window_args(rng):
    t = ["tukey", "tukey", "tukey", "hann", None, np.str_("tukey"), b"tukey", ["tukey"], "Tukey"][rng.integers(0, 9)]
    w = [0.1, 0, 1, 0.5, -0.2, 1.5, np.float32(0.2), np.nan, 0.05, "0.1", None, fractions.Fraction(1, 4), True][rng.integers(0, 13)]
    return t, w


def rand_degrees(rng):
    return [0, 0., 15, 15.5, 90, -10, 370, 360, 359.9999, 720.5, -360, -0.0, np.float32(33.3), np.float64(12.5),
            np.int64(45), fractions.Fraction(91, 2), True, np.nan, np.inf, 1e20, "12", None,
            np.array(30.), np.array([30.]), decimal.Decimal("22.5"), 1e-320][rng.integers(0, 26)]


def rand_meta(rng):
    k = rng.integers(0, 14)
    if k == 0:
        return None
    if k == 1:
        return {}
    if k == 2:
        return {"file name(s)": ["a.miniseed", "b.c.miniseed"]}
    if k == 3:
        return {"zeta": 1, "alpha": [1, 2, {"k": [3]}], "current degrees from north": 77}
    if k == 4:
        return {"deployed degrees from north": np.float64(5.0), "x": np.arange(3), "y": np.float32(1.5), "z": np.int8(3)}
    if k == 5:
        return {"trim": (1.0, 2.0), "detrend": "constant", "nan": float("nan"), "inf": float("-inf"), "negzero": -0.0}
    if k == 6:
        return {1: "int key", 2.5: "float key", None: "none key", True: "bool key"}
    if k == 7:
        return {"bad": {1, 2}}
    if k == 8:
        return [("a", 1), ("b", 2)]
    if k == 9:
        return types.MappingProxyType({"proxy": 1})
    if k == 10:
        return {"unicode": "é中\U0001F600", "nested": {"t": (1, (2, 3))}}
    if k == 11:
        return {("tuple", "key"): 1}
    if k == 12:
        return {"bytes": b"abc"}
    return {"file name(s)": "x.y.z", "split": 30, "butterworth_filter": (None, None)}


# --------------------------------------------------------------------------
# scenarios: TimeSeries


def scen_construct(rng, i):
    n = int(rng.integers(0, 40))
    base = rand_amplitude(rng, n)
    k = i % 22
    inputs = {
        0: lambda: base,
        1: lambda: base.tolist(),
        2: lambda: tuple(base.tolist()),
        3: lambda: base.astype(np.float32),
        4: lambda: np.nan_to_num(base, nan=0, posinf=9, neginf=-9).clip(-1e6, 1e6).astype(np.int32),
        5: lambda: base.reshape(1, -1),
        6: lambda: np.float64(3.0),
        7: lambda: [[1, 2], [3]],
        8: lambda: ["a", "b"],
        9: lambda: None,
        10: lambda: "abc",
        11: lambda: (x for x in [1., 2.]),
        12: lambda: base[::2],
        13: lambda: base[::-1],
        14: lambda: np.array([True, False, True]),
        15: lambda: ["1.5", "2.5"],
        16: lambda: np.array([1+0j, 2+1j]),
        17: lambda: range(5),
        18: lambda: [fractions.Fraction(1, 3), decimal.Decimal("0.5"), 2],
        19: lambda: np.ma.masked_invalid(base) if n else [],
        20: lambda: {"a": 1},
        21: lambda: [np.nan, -0.0, np.inf, None],
    }[k]()
    dt = maybe_typed(rng, rand_dt(rng)) if rng.random() < 0.8 else ["0.01", None, 0, -1.0, np.nan, [0.1], 1+0j][rng.integers(0, 7)]
    ts = call(f"construct{k}", TimeSeries, inputs, dt)
    if isinstance(ts, TimeSeries):
        state("construct:state", ts, inputs if isinstance(inputs, np.ndarray) else None)
        if isinstance(inputs, np.ndarray) and inputs.size and inputs.dtype.kind in "fi":
            before = describe(ts)
            try:
                inputs.flat[0] = 12345
            except Exception:
                pass
            emit("construct:independent", describe(ts) == before)
        call("n_samples", lambda: ts.n_samples)
        call("fs", lambda: ts.fs)
        call("fnyq", lambda: ts.fnyq)
        call("time", ts.time)
        call("repr", repr, ts)
        call("str", str, ts)
        call("hash", hash, ts)
        cp = call("from_timeseries", TimeSeries.from_timeseries, ts)
        if isinstance(cp, TimeSeries):
            state("copy:state", cp, ts.amplitude)
            call("eq copy", lambda: ts == cp)
            call("ne copy", lambda: ts != cp)
        # re-initialisation of an existing object, failing and succeeding
        call("reinit bad", ts.__init__, [[1., 2.], [3., 4.]], 0.5)
        state("reinit bad:state", ts)
        call("reinit bad2", ts.__init__, ["x"], 0.5)
        state("reinit bad2:state", ts)
        call("reinit bad3", ts.__init__, [1., 2.], "abc")
        state("reinit bad3:state", ts)


def scen_trim(rng, i):
    n = int([0, 1, 2, 3, 5, 11, 50, 101, 256][rng.integers(0, 9)])
    dt = rand_dt(rng)
    amp = rand_amplitude(rng, n)
    ts = TimeSeries(amp, dt)
    for step in range(int(rng.integers(1, 5))):
        old = ts.amplitude
        m = ts.n_samples
        a = maybe_typed(rng, rand_time(rng, m, dt))
        b = maybe_typed(rng, rand_time(rng, m, dt))
        if rng.random() < 0.6 and isinstance(a, (int, float)) and isinstance(b, (int, float)) and a > b:
            a, b = b, a
        emit("trim:args", describe(a), describe(b))
        if rng.random() < 0.5:
            call("trim", ts.trim, a, b)
        else:
            call("trim kw", ts.trim, end_time=b, start_time=a)
        state("trim:state", ts, old, amp)
        if rng.random() < 0.3:
            # in-place operation after a trim is seen through older arrays
            call("window after trim", ts.window)
            emit("old after window", describe(old), describe(amp))


def scen_trim_ties(rng, i):
    """Legal trims with times on, between and just beside the samples."""
    n = int(rng.integers(2, 400))
    dt = rand_dt(rng)
    amp = rand_amplitude(rng, n, special=0.3)
    end = np.arange(n)[-1]*dt
    for target in ("ts", "rec"):
        i0 = int(rng.integers(0, n-1))
        i1 = int(rng.integers(i0+1, n))
        fracs = [0., 0.5, -0.5, 0.25, -0.25, 0.49999999, 0.50000001, 1e-9, -1e-9]
        a = (i0 + fracs[rng.integers(0, 9)])*dt
        b = (i1 + fracs[rng.integers(0, 9)])*dt
        if rng.random() < 0.3:
            a = float(np.nextafter(a, [-np.inf, np.inf][rng.integers(0, 2)]))
        if rng.random() < 0.3:
            b = float(np.nextafter(b, [-np.inf, np.inf][rng.integers(0, 2)]))
        a = min(max(a, 0.), end)
        b = min(max(b, 0.), end)
        conv = [float, np.float64, np.float32, lambda v: fractions.Fraction(v), np.longdouble,
                lambda v: np.array(v), lambda v: round(v, 2), lambda v: int(v)]
        a = conv[rng.integers(0, 8)](a) if rng.random() < 0.5 else a
        b = conv[rng.integers(0, 8)](b) if rng.random() < 0.5 else b
        emit("ties:args", target, n, dt, describe(a), describe(b))
        if target == "ts":
            ts = TimeSeries(amp, dt)
            old = ts.amplitude
            call("ties trim", ts.trim, a, b)
            state("ties:state", ts, old)
            call("ties time", ts.time)
        else:
            rec = SeismicRecording3C(TimeSeries(amp, dt), TimeSeries(amp[::-1], dt),
                                     TimeSeries(-amp, dt + (0.9e-8 if i % 3 == 0 else 0.)))
            olds = [rec.ns.amplitude, rec.ew.amplitude, rec.vt.amplitude]
            call("ties rec trim", rec.trim, a, b)
            rec_state("ties rec:state", rec, *olds)
            call("ties rec trim again", rec.trim, a, b)
            rec_state("ties rec:state again", rec, *olds)


def scen_split(rng, i):
    n = int([0, 1, 2, 7, 10, 11, 60, 61, 100, 301][rng.integers(0, 10)])
    dt = rand_dt(rng)
    if rng.random() < 0.05:
        dt = 0.0
    amp = rand_amplitude(rng, n)
    cls = TimeSeries if rng.random() < 0.8 else SubTimeSeries
    ts = cls(amp, dt)
    w = maybe_typed(rng, rand_window_length(rng, n, dt if dt else 0.01))
    emit("split:args", describe(w), n, dt)
    before = describe(ts)
    windows = call("split", ts.split, w)
    emit("split:unchanged", describe(ts) == before)
    if isinstance(windows, list):
        for wdw in windows[:50]:
            state("split:window", wdw, ts.amplitude)
        if windows and windows[0].n_samples:
            windows[0].amplitude[0] = 99.0
            windows[0].amplitude *= 2
            emit("split:independent", describe(ts) == before,
                 describe(windows[1]) if len(windows) > 1 else None)


class SubTimeSeries(TimeSeries):
    pass


class SubRecording(SeismicRecording3C):
    pass


def scen_inplace_ops(rng, i):
    n = int([0, 1, 2, 3, 10, 33, 34, 64, 200][rng.integers(0, 9)])
    dt = rand_dt(rng)
    if rng.random() < 0.04:
        dt = 0.0
    amp = rand_amplitude(rng, n)
    ts = TimeSeries(amp, dt)
    for step in range(int(rng.integers(1, 5))):
        old = ts.amplitude
        op = rng.integers(0, 3)
        if op == 0:
            t = rand_detrend(rng)
            emit("detrend:arg", describe(t))
            if rng.random() < 0.5:
                call("detrend", ts.detrend, t)
            elif rng.random() < 0.5:
                call("detrend kw", ts.detrend, type=t)
            else:
                call("detrend default", ts.detrend)
        elif op == 1:
            t, w = rand_window_args(rng)
            emit("window:arg", describe(t), describe(w))
            r = rng.random()
            if r < 0.3:
                call("window pos", ts.window, t, w)
            elif r < 0.6:
                call("window kw", ts.window, width=w, type=t)
            elif r < 0.8:
                call("window default", ts.window)
            else:
                call("window width only", ts.window, width=w)
        else:
            fcs = rand_fcs(rng, dt if dt else 0.01)
            order = rand_order(rng)
            if rng.random() < 0.1:
                fcs = iter(fcs) if isinstance(fcs, (list, tuple)) else fcs
                emit("filter:arg iterator", describe(order))
            else:
                emit("filter:arg", describe(fcs), describe(order))
            r = rng.random()
            if r < 0.4:
                call("filter default order", ts.butterworth_filter, fcs)
            elif r < 0.7:
                call("filter pos", ts.butterworth_filter, fcs, order)
            else:
                call("filter kw", ts.butterworth_filter, order=order, fcs_in_hz=fcs)
        state("inplace:state", ts, old, amp)
        emit("inplace:old", describe(old))


def scen_compare(rng, i):
    n = int(rng.integers(0, 30))
    dt = rand_dt(rng)
    a = TimeSeries(rand_amplitude(rng, n), dt)
    k = i % 14
    if k == 0:
        b = TimeSeries(a.amplitude, dt)
    elif k == 1:
        b = TimeSeries(a.amplitude, dt + 0.99e-8)
    elif k == 2:
        b = TimeSeries(a.amplitude, dt + 1.01e-8)
    elif k == 3:
        b = TimeSeries(a.amplitude*(1+0.9e-5), dt)
    elif k == 4:
        b = TimeSeries(a.amplitude*(1+1.5e-5) + 1e-7, dt)
    elif k == 5:
        b = TimeSeries(np.append(a.amplitude, 0.), dt)
    elif k == 6:
        b = a.amplitude
    elif k == 7:
        b = "not a timeseries"
    elif k == 8:
        b = SubTimeSeries(a.amplitude, dt)
    elif k == 9:
        b = TimeSeries(a.amplitude, np.nan)
    elif k == 10:
        b = a
    elif k == 11:
        b = TimeSeries(a.amplitude + 1e-9, dt)
    elif k == 12:
        b = None
    else:
        b = types.SimpleNamespace(amplitude=a.amplitude, dt_in_seconds=dt, n_samples=n)
    for x, y, lab in ((a, b, "ab"), (b, a, "ba")):
        if isinstance(x, TimeSeries):
            call("is_similar " + lab, x.is_similar, y)
        call("eq " + lab, lambda: x == y)
        call("ne " + lab, lambda: x != y)


def scen_from_trace(rng, i):
    n = int(rng.integers(1, 50))
    data = rand_amplitude(rng, n)
    if i % 3 == 0:
        data = data.astype(np.float32)
    elif i % 3 == 1:
        data = np.nan_to_num(data, nan=0, posinf=9, neginf=-9).clip(-1e6, 1e6).astype(np.int32)
    tr = obspy.Trace(data=data)
    tr.stats.delta = rand_dt(rng)
    cls = TimeSeries if i % 2 else SubTimeSeries
    ts = call("from_trace", cls.from_trace, tr)
    state("from_trace:state", ts, tr.data)
    cp = call("from_timeseries sub", SubTimeSeries.from_timeseries, ts)
    state("from_timeseries sub:state", cp, ts.amplitude)


# --------------------------------------------------------------------------
# scenarios: SeismicRecording3C


def make_components(rng, n=None, dt=None):
    n = int([1, 2, 3, 12, 40, 41, 100, 241][rng.integers(0, 8)]) if n is None else n
    dt = rand_dt(rng) if dt is None else dt
    return [TimeSeries(rand_amplitude(rng, n), dt) for _ in range(3)], n, dt


def rec_state(label, rec, *others):
    if isinstance(rec, SeismicRecording3C):
        state(label, rec, *others)
    else:
        emit(label, "not a recording", describe(rec))


def scen_rec_construct(rng, i):
    (ns, ew, vt), n, dt = make_components(rng)
    k = i % 12
    if k == 1:
        ew = TimeSeries(np.append(ew.amplitude, 1.), dt)
    elif k == 2:
        vt = TimeSeries(vt.amplitude, dt*1.001)
    elif k == 3:
        vt = TimeSeries(vt.amplitude, dt+0.5e-8)
    elif k == 4:
        ns = SubTimeSeries(ns.amplitude, dt)
    elif k == 5:
        ew = "ew"
    elif k == 6:
        ns = types.SimpleNamespace(amplitude=ns.amplitude, dt_in_seconds=dt)
    elif k == 7:
        ns = TimeSeries(ns.amplitude[:-1] if n > 1 else ns.amplitude, dt)
    deg = rand_degrees(rng)
    meta = rand_meta(rng)
    emit("rec construct:args", k, describe(deg), describe(meta) if not isinstance(meta, types.MappingProxyType) else "proxy")
    r = rng.random()
    if r < 0.3:
        rec = call("rec construct", SeismicRecording3C, ns, ew, vt)
    elif r < 0.6:
        rec = call("rec construct pos", SeismicRecording3C, ns, ew, vt, deg, meta)
    else:
        rec = call("rec construct kw", SubRecording if i % 5 == 0 else SeismicRecording3C,
                   ns, ew, vt, meta=meta, degrees_from_north=deg)
    if not isinstance(rec, SeismicRecording3C):
        return
    srcs = [c.amplitude for c in (ns, ew, vt) if isinstance(c, TimeSeries)]
    rec_state("rec construct:state", rec, *srcs)
    emit("rec component identity", rec.ns is ns, rec.ew is ew, rec.vt is vt,
         type(rec.ns).__name__, rec.meta is meta)
    # independence from the inputs
    before = describe(rec)
    for c in (ns, ew, vt):
        if isinstance(c, TimeSeries) and c.n_samples:
            c.amplitude[0] = -777.
    if isinstance(meta, dict):
        meta["added later"] = 1
        for v in meta.values():
            if isinstance(v, list):
                v.append("shared?")
    emit("rec construct:independent", describe(rec) == before, describe(rec.meta))
    call("rec repr", repr, rec)
    call("rec str", str, rec)
    call("rec hash", hash, rec)
    call("rec _to_dict", rec._to_dict)
    d = rec._to_dict()
    emit("_to_dict meta is meta", d["meta"] is rec.meta, list(d.keys()))
    cp = call("rec copy", type(rec).from_seismic_recording_3c, rec)
    rec_state("rec copy:state", cp, rec.ns.amplitude, rec.ew.amplitude, rec.vt.amplitude)
    if isinstance(cp, SeismicRecording3C):
        emit("copy meta identity", cp.meta is rec.meta,
             [a is b for a, b in zip(cp.meta.values(), rec.meta.values())])
        call("rec eq copy", lambda: rec == cp)
        call("rec ne copy", lambda: rec != cp)
        call("rec is_similar copy", rec.is_similar, cp)
    cp2 = call("rec copy crossclass", SubRecording.from_seismic_recording_3c, rec)
    emit("crossclass type", type(cp2).__name__)


def scen_rec_copy_duck(rng, i):
    (ns, ew, vt), n, dt = make_components(rng)
    k = i % 6
    if k == 0:
        src = types.SimpleNamespace(ns=ns, ew=ew, vt=vt, degrees_from_north=10, meta={"a": 1})
    elif k == 1:
        src = types.SimpleNamespace(ns=ns, ew=ew, vt=vt, degrees_from_north=10)
    elif k == 2:
        src = types.SimpleNamespace(ns=ns, ew=ew, degrees_from_north=10, meta=None)
    elif k == 3:
        src = types.SimpleNamespace(ns=SubTimeSeries(ns.amplitude, dt), ew=ew, vt=vt, degrees_from_north=-10., meta=None)
    elif k == 4:
        src = types.SimpleNamespace(ns=ns.amplitude, ew=ew, vt=vt, degrees_from_north=-10., meta=None)
    else:
        src = types.SimpleNamespace(ns=ns, ew=ew, vt=TimeSeries([1., 2.], dt), degrees_from_north=-10., meta=None)
    rec = call("rec copy duck", SeismicRecording3C.from_seismic_recording_3c, src)
    rec_state("rec copy duck:state", rec)


def scen_rec_compare(rng, i):
    (ns, ew, vt), n, dt = make_components(rng)
    meta = {"k": [1, 2], "trim": (0, 1)}
    a = SeismicRecording3C(ns, ew, vt, degrees_from_north=20, meta=meta)
    k = i % 14
    b = SeismicRecording3C.from_seismic_recording_3c(a)
    if k == 1:
        b.degrees_from_north = 20.09
    elif k == 2:
        b.degrees_from_north = 20.11
    elif k == 3:
        b.meta["extra"] = 1
    elif k == 4:
        b.vt.amplitude = b.vt.amplitude + 1.0
    elif k == 5:
        b.ew.dt_in_seconds = dt*2
    elif k == 6:
        b = "recording"
    elif k == 7:
        b = SubRecording.from_seismic_recording_3c(a)
    elif k == 8:
        b.meta["arr"] = np.arange(3)
        a.meta["arr"] = np.arange(3)
    elif k == 9:
        b.degrees_from_north = np.nan
    elif k == 10:
        b.ns.amplitude = b.ns.amplitude[:-1] if n > 1 else b.ns.amplitude
    elif k == 11:
        b.meta = dict(reversed(list(b.meta.items())))
    elif k == 12:
        b = a
    elif k == 13:
        b.vt.amplitude = b.vt.amplitude*(1+1e-6)
    for x, y, lab in ((a, b, "ab"), (b, a, "ba")):
        if isinstance(x, SeismicRecording3C):
            call("rec is_similar " + lab, x.is_similar, y)
        call("rec eq " + lab, lambda: x == y)
        call("rec ne " + lab, lambda: x != y)


class Fault(Exception):
    pass


class inject:
    """Make the k-th call of TimeSeries.<name> raise (process-wide patch)."""

    def __init__(self, name, k, exc=Fault):
        self.name, self.k, self.exc = name, k, exc

    def __enter__(self):
        self.original = TimeSeries.__dict__[self.name]
        original = self.original
        counter = [0]
        k, exc, name = self.k, self.exc, self.name
        calls = self.calls = []

        is_classmethod = isinstance(original, classmethod)
        function = original.__func__ if is_classmethod else original

        def patched(this, *args, **kwargs):
            counter[0] += 1
            calls.append((counter[0], this.__name__ if isinstance(this, type) else type(this).__name__,
                          describe(args), describe(kwargs)))
            if counter[0] == k:
                raise exc(f"injected fault in {name} call {k}")
            return function(this, *args, **kwargs)
        if is_classmethod:
            patched = classmethod(patched)
        setattr(TimeSeries, self.name, patched)
        return self

    def __exit__(self, *exc_info):
        setattr(TimeSeries, self.name, self.original)
        emit("inject:calls", self.name, tuple(self.calls))
        return False


def rec_op(rng, rec, n, dt, files):
    """One random operation on a recording; returns possibly new objects."""
    olds = [getattr(getattr(rec, c), "amplitude", None) for c in ("ns", "ew", "vt")]
    comps = (rec.ns, rec.ew, rec.vt)
    op = int(rng.integers(0, 10))
    fault = None
    if rng.random() < 0.2:
        fault = int(rng.integers(1, 5))
    name = None
    if op == 0:
        m = rec.ns.n_samples
        a = maybe_typed(rng, rand_time(rng, m, dt))
        b = maybe_typed(rng, rand_time(rng, m, dt))
        if rng.random() < 0.7 and isinstance(a, (int, float)) and isinstance(b, (int, float)) and a > b:
            a, b = b, a
        emit("rec trim:args", describe(a), describe(b))
        fn = (lambda: rec.trim(a, b)) if rng.random() < 0.5 else (lambda: rec.trim(end_time=b, start_time=a))
        name = "trim"
    elif op == 1:
        t = rand_detrend(rng)
        emit("rec detrend:arg", describe(t))
        r = rng.random()
        fn = (lambda: rec.detrend(t)) if r < 0.4 else ((lambda: rec.detrend(type=t)) if r < 0.8 else rec.detrend)
        name = "detrend"
    elif op == 2:
        t, w = rand_window_args(rng)
        emit("rec window:arg", describe(t), describe(w))
        r = rng.random()
        fn = (lambda: rec.window(t, w)) if r < 0.4 else ((lambda: rec.window(width=w, type=t)) if r < 0.8 else rec.window)
        name = "window"
    elif op == 3:
        fcs = rand_fcs(rng, dt)
        order = rand_order(rng) if rng.random() < 0.5 else 5
        if rng.random() < 0.1 and isinstance(fcs, (list, tuple)):
            emit("rec filter:arg iterator", describe(fcs), describe(order))
            fcs = iter(fcs)
        else:
            emit("rec filter:arg", describe(fcs), describe(order))
        r = rng.random()
        fn = (lambda: rec.butterworth_filter(fcs)) if r < 0.4 else (
            (lambda: rec.butterworth_filter(fcs, order)) if r < 0.7 else (lambda: rec.butterworth_filter(order=order, fcs_in_hz=fcs)))
        name = "butterworth_filter"
    elif op == 4:
        deg = rand_degrees(rng)
        emit("rec orient:arg", describe(deg))
        fn = (lambda: rec.orient_sensor_to(deg)) if rng.random() < 0.5 else (lambda: rec.orient_sensor_to(degrees_from_north=deg))
    elif op == 5:
        w = maybe_typed(rng, rand_window_length(rng, rec.ns.n_samples, dt))
        emit("rec split:arg", describe(w))
        fn = lambda: rec.split(w)
        name = "split"
    elif op == 6:
        fname = rand_fname(rng, files)
        emit("rec save:fname", describe_fname(fname))
        fn = lambda: save_and_read(rec, fname)
    elif op == 7:
        fn = lambda: type(rec).from_seismic_recording_3c(rec)
        name = "from_timeseries" if rng.random() < 0.5 else None
    elif op == 8:
        # make the components inconsistent behind the recording's back
        c = ("ns", "ew", "vt")[rng.integers(0, 3)]
        k = rng.integers(0, 5)
        comp = getattr(rec, c)
        if k == 0 and comp.n_samples > 2:
            comp.amplitude = comp.amplitude[:-1]
        elif k == 1:
            comp.dt_in_seconds = comp.dt_in_seconds*2
        elif k == 2:
            comp.amplitude = np.append(comp.amplitude, [1., 2.])
        elif k == 3:
            comp.amplitude = comp.amplitude[::2]
        else:
            comp.dt_in_seconds = comp.dt_in_seconds + 0.9e-8
        emit("rec tamper", c, int(k))
        fn = lambda: None
    else:
        # meta tampering
        k = rng.integers(0, 4)
        if k == 0:
            rec.meta["user"] = [1, 2, 3]
        elif k == 1:
            rec.meta.pop("current degrees from north", None)
        elif k == 2:
            rec.meta["np"] = np.float32(2.5)
        else:
            rec.meta["trim"] = "old"
        emit("rec meta tamper", int(k))
        fn = lambda: None

    if fault is not None and name is not None:
        with inject(name, fault, exc=[Fault, ValueError, IndexError, KeyboardInterruptLike][rng.integers(0, 4)]):
            result = call("rec op faulty " + name, fn)
        rec_state("rec op faulty:state", rec, *olds)
        emit("component identity", rec.ns is comps[0], rec.ew is comps[1], rec.vt is comps[2])
        emit("olds", tuple(describe(o) for o in olds))
        if rng.random() < 0.8 and op != 3:
            result = call("rec op repeated " + name, fn)
    else:
        result = call("rec op " + str(name) + str(op), fn)
    rec_state("rec op:state", rec, *olds)
    emit("component identity", rec.ns is comps[0], rec.ew is comps[1], rec.vt is comps[2])
    emit("olds", tuple(describe(o) for o in olds))
    if op == 5 and isinstance(result, list):
        emit("split count", len(result))
        for w in result[:40]:
            rec_state("split window", w, rec.ns.amplitude, rec.ew.amplitude, rec.vt.amplitude)
            emit("split window meta identity", w.meta is rec.meta, type(w).__name__)
        if result:
            first = result[0]
            before = describe(rec)
            if first.ns.n_samples:
                first.ns.amplitude[0] = 4242.
            first.meta["window only"] = True
            emit("split independent", describe(rec) == before, describe(result[-1].meta))
    if op == 7 and isinstance(result, SeismicRecording3C):
        rec_state("copy", result, rec.ns.amplitude, rec.ew.amplitude, rec.vt.amplitude)
        if rng.random() < 0.5:
            return result
    return rec


class KeyboardInterruptLike(BaseException):
    """An exception that is not an ``Exception``."""


def rand_fname(rng, files):
    k = int(rng.integers(0, 12))
    stem = f"f{len(files)}"
    if k == 0:
        f = stem + ".json"
    elif k == 1:
        f = stem + ".a.b.json"
    elif k == 2:
        f = stem
    elif k == 3:
        f = pathlib.Path(stem + ".json")
    elif k == 4:
        f = pathlib.Path(stem + ".v1.2.rec")
    elif k == 5:
        f = (stem + ".json").encode()
    elif k == 6:
        f = os.path.join("missing_dir", stem + ".json")
    elif k == 7:
        f = pathlib.PurePosixPath("sub.dir") / (stem + ".")
    elif k == 8:
        f = "." + stem
    elif k == 9 and files:
        f = files[int(rng.integers(0, len(files)))]  # overwrite an existing file
    elif k == 10:
        f = os.path.join(TMP, stem + " with space.JSON")
    else:
        f = stem + "..json"
    files.append(f)
    return f


def describe_fname(fname):
    return (type(fname).__name__, clean(fname))


def read_bytes(fname):
    try:
        with open(fname, "rb") as f:
            return f.read()
    except Exception as e:
        return ("unreadable", type(e).__name__)


def save_and_read(rec, fname):
    out = None
    try:
        out = rec.save(fname)
    finally:
        raw = read_bytes(fname)
        emit("file bytes", raw if not isinstance(raw, bytes) else
             (len(raw), hashlib.sha256(raw).hexdigest()[:24], raw[:120]))
    loaded = call("load", type(rec).load, fname)
    if isinstance(loaded, SeismicRecording3C):
        rec_state("loaded", loaded)
        call("loaded eq", lambda: loaded == rec)
        emit("loaded type", type(loaded).__name__, type(loaded.ns).__name__)
        call("load via base", SeismicRecording3C.load, pathlib.Path(os.fsdecode(fname)))
    return out


def scen_rec_sequence(rng, i):
    (ns, ew, vt), n, dt = make_components(rng, n=int([5, 30, 61, 120, 241][rng.integers(0, 5)]))
    deg = [0, 15., 370, -20, np.float64(5.)][rng.integers(0, 5)]
    meta = rand_meta(rng)
    if not (meta is None or isinstance(meta, dict)):
        meta = None
    cls = SeismicRecording3C if rng.random() < 0.8 else SubRecording
    rec = cls(ns, ew, vt, degrees_from_north=deg, meta=meta)
    files = []
    for step in range(int(rng.integers(2, 8))):
        rec = rec_op(rng, rec, n, dt, files)


def scen_save_load(rng, i):
    (ns, ew, vt), n, dt = make_components(rng, n=int([1, 2, 9, 30][rng.integers(0, 4)]))
    meta = rand_meta(rng)
    deg = rand_degrees(rng)
    rec = call("sl construct", SeismicRecording3C, ns, ew, vt, deg, meta)
    if not isinstance(rec, SeismicRecording3C):
        return
    files = []
    if i % 7 == 0:
        rec.orient_sensor_to(np.float32(12.5))  # numpy scalar in meta and attribute
    if i % 11 == 0:
        rec.trim(np.float64(0), np.int64(1)*dt*(n-1)) if n > 1 else None
    if i % 13 == 0:
        rec.meta["self"] = rec.meta  # circular
    if i % 17 == 0:
        rec.ns.amplitude = rec.ns.amplitude.tolist()  # breaks _to_dict after open
    for _ in range(2):
        fname = rand_fname(rng, files)
        emit("sl fname", describe_fname(fname))
        if isinstance(fname, str) and not os.path.isabs(fname) and rng.random() < 0.3:
            with open(fname, "w") as f:
                f.write("previous content that is longer than nothing " * 3)
        call("sl save+load", save_and_read, rec, fname)
    if i % 9 == 0:
        fd = os.open("fd_file.json", os.O_WRONLY | os.O_CREAT | os.O_TRUNC)
        call("save to fd", rec.save, fd)
        emit("fd file", read_bytes("fd_file.json"))
        try:
            os.close(fd)
            emit("fd still open")
        except OSError:
            emit("fd closed")


def scen_load_malformed(rng, i):
    good = dict(dt_in_seconds=0.01, ns_amplitude=[1., 2., 3.], ew_amplitude=[1., 2., 4.],
                vt_amplitude=[0., 2., 3.], degrees_from_north=370.5, meta={"a": 1})
    k = i % 20
    doc = dict(good)
    text = None
    if k == 0:
        pass
    elif k < 7:
        doc.pop(list(good.keys())[k-1])
    elif k == 7:
        doc = [1, 2, 3]
    elif k == 8:
        text = "{not json"
    elif k == 9:
        text = ""
    elif k == 10:
        doc["ew_amplitude"] = [1., 2.]
    elif k == 11:
        doc["vt_amplitude"] = [[1., 2., 3.]]
    elif k == 12:
        doc["ns_amplitude"] = ["a", "b", "c"]
    elif k == 13:
        doc["dt_in_seconds"] = "0.01"
    elif k == 14:
        doc["meta"] = None
    elif k == 15:
        doc["meta"] = [["a", 1]]
    elif k == 16:
        text = '{"dt_in_seconds": 0.5, "ns_amplitude": [NaN, -0.0, Infinity], "ew_amplitude": [1, 2, -Infinity], "vt_amplitude": [1e400, 2, 3], "degrees_from_north": NaN, "meta": {"file name(s)": null, "extra": [1, 2]}, "ignored": 1}'
    elif k == 17:
        doc["degrees_from_north"] = "12"
    elif k == 18:
        doc = {**{"meta": {"z": 1}}, **good, "meta": {"current degrees from north": 1, "z": 2}}
    else:
        doc["dt_in_seconds"] = None
    fname = f"malformed{i}.json" if i % 2 else pathlib.Path(f"malformed.{i}.x")
    with open(fname, "w") as f:
        f.write(text if text is not None else json.dumps(doc))
    cls = SeismicRecording3C if i % 3 else SubRecording
    rec = call(f"load malformed {k}", cls.load, fname)
    rec_state("load malformed:state", rec)
    call("load missing file", cls.load, f"does_not_exist_{i}.json")
    call("load dir", cls.load, ".")
    call("_from_dict", cls._from_dict, doc)


def scen_fault_each_op(rng, i):
    """Every three-component operation interrupted at every component."""
    (ns, ew, vt), n, dt = make_components(rng, n=61, dt=0.01)
    for name, fn_factory in (
            ("trim", lambda r: (lambda: r.trim(0.1, 0.4))),
            ("detrend", lambda r: (lambda: r.detrend("constant"))),
            ("window", lambda r: (lambda: r.window("tukey", 0.3))),
            ("butterworth_filter", lambda r: (lambda: r.butterworth_filter((2, 20)))),
            ("split", lambda r: (lambda: r.split(0.2))),
            ("from_timeseries", lambda r: (lambda: r.trim(0.1, 0.4))),
            ("from_timeseries", lambda r: (lambda: r.split(0.2))),
            ("from_timeseries", lambda r: (lambda: SeismicRecording3C.from_seismic_recording_3c(r))),
            ("is_similar", lambda r: (lambda: r.split(0.2))),
            ("time", lambda r: (lambda: r.trim(0.1, 0.4))),
    ):
        for k in (1, 2, 3, 4, 6, 7):
            rec = SeismicRecording3C(ns, ew, vt, degrees_from_north=10, meta={"m": 1})
            olds = [rec.ns.amplitude, rec.ew.amplitude, rec.vt.amplitude]
            fn = fn_factory(rec)
            with inject(name, k):
                r1 = call(f"fault {name} {k}", fn)
            rec_state("fault:state", rec, *olds)
            r2 = call(f"fault {name} {k} repeat", fn)
            rec_state("fault:state after repeat", rec, *olds)
            if isinstance(r2, list):
                emit("fault split result", tuple(describe(w) for w in r2))


def scen_interface(rng, i):
    for cls in (TimeSeries, SeismicRecording3C):
        public = sorted(n for n in dir(cls) if not n.startswith("_"))
        emit("public names", cls.__name__, public)
        for n in public + ["__init__", "__eq__", "__str__", "__repr__"]:
            attr = inspect.getattr_static(cls, n)
            target = getattr(cls, n)
            try:
                sig = str(inspect.signature(target))
            except (TypeError, ValueError):
                sig = None
            emit("signature", cls.__name__, n, type(attr).__name__, sig)
        emit("hash attr", cls.__hash__)
        emit("mro", [c.__name__ for c in cls.__mro__])
    emit("__all__", ts_module.__all__, rec_module.__all__)
    emit("exports", hvsrpy.TimeSeries is TimeSeries, hvsrpy.SeismicRecording3C is SeismicRecording3C)
    emit("module seams", [hasattr(ts_module, n) for n in ("np", "tukey", "butter", "sosfiltfilt", "detrend", "warnings", "logger")],
         [hasattr(rec_module, n) for n in ("np", "json", "TimeSeries")])
    call("_numpy_to_builtin scalar", SeismicRecording3C._numpy_to_builtin, np.float32(1.5))
    call("_numpy_to_builtin array", SeismicRecording3C._numpy_to_builtin, np.arange(3))
    call("_numpy_to_builtin other", SeismicRecording3C._numpy_to_builtin, {1})
    ts = TimeSeries([1., 2.], 1)
    rec = SeismicRecording3C(ts, ts, ts)
    call("_numpy_to_builtin instance", rec._numpy_to_builtin, np.int8(3))


def scen_seam_patches(rng, i):
    """Module level names are looked up at call time."""
    (ns, ew, vt), n, dt = make_components(rng, n=41, dt=0.01)
    rec = SeismicRecording3C(ns, ew, vt)
    seen = []
    for modname, mod, name in (("ts", ts_module, "detrend"), ("ts", ts_module, "tukey"),
                               ("ts", ts_module, "butter"), ("ts", ts_module, "sosfiltfilt")):
        original = getattr(mod, name)

        def spy(*a, _o=original, _n=name, **k):
            seen.append((_n, describe(a), describe(k)))
            return _o(*a, **k)
        setattr(mod, name, spy)
        try:
            call("seam detrend", rec.detrend)
            call("seam window", rec.window)
            call("seam filter", rec.butterworth_filter, (1, 10))
        finally:
            setattr(mod, name, original)
    emit("seam calls", tuple(seen))
    seen.clear()

    original_dump, original_load = json.dump, json.load

    def dump(obj, fp, **k):
        seen.append(("dump", describe(obj), type(fp).__name__, fp.mode, sorted(k), fp.name if isinstance(fp.name, int) else clean(fp.name)))
        return original_dump(obj, fp, **k)

    def load(fp, **k):
        seen.append(("load", type(fp).__name__, fp.mode, sorted(k)))
        return original_load(fp, **k)
    json.dump, json.load = dump, load
    try:
        call("seam save", rec.save, "seam.json")
        call("seam load", SeismicRecording3C.load, "seam.json")
    finally:
        json.dump, json.load = original_dump, original_load
    emit("seam json calls", tuple(seen))

    # a class derived from TimeSeries as a component installed after construction
    class Loud(TimeSeries):
        calls = []

        def trim(self, *a, **k):
            Loud.calls.append(("trim", describe(a), describe(k)))
            return super().trim(*a, **k)

        def split(self, *a, **k):
            Loud.calls.append(("split", describe(a), describe(k)))
            return super().split(*a, **k)

        def detrend(self, *a, **k):
            Loud.calls.append(("detrend", describe(a), describe(k)))
            if k.get("type") == "constant":
                raise Fault("loud detrend")
            return super().detrend(*a, **k)

        def time(self):
            Loud.calls.append(("time",))
            return super().time()

        @property
        def n_samples(self):
            Loud.calls.append(("n_samples",))
            return len(self.amplitude)
    rec.ew = Loud(rec.ew.amplitude, rec.ew.dt_in_seconds)
    call("loud trim", rec.trim, 0.05, 0.3)
    call("loud split", rec.split, 0.1)
    call("loud detrend", rec.detrend)
    call("loud detrend fail", rec.detrend, "constant")
    call("loud copy", SeismicRecording3C.from_seismic_recording_3c, rec)
    call("loud eq", lambda: rec == rec)
    call("loud save", rec.save, "loud.json")
    rec_state("loud:state", rec)
    emit("loud calls", tuple(Loud.calls), type(rec.ew).__name__)


def scen_warning_locations(rng, i):
    """Repeated no-op filters under the default warning filter."""
    (ns, ew, vt), n, dt = make_components(rng, n=20, dt=0.01)
    rec = SeismicRecording3C(ns, ew, vt)
    with warnings.catch_warnings(record=True) as caught:
        warnings.simplefilter("default")
        if hasattr(ts_module, "__warningregistry__"):
            ts_module.__warningregistry__.clear()
        rec.butterworth_filter((None, None))
        rec.ns.butterworth_filter([None, None])
        rec.butterworth_filter((None, None))
    emit("default filter warnings", len(caught), [(w.category.__name__, str(w.message), os.path.basename(w.filename)) for w in caught])
    with warnings.catch_warnings():
        warnings.simplefilter("error")
        r = call("warning as error", rec.butterworth_filter, (None, None))
        rec_state("warning as error:state", rec)


SCENARIOS = [
    (scen_construct, 66),
    (scen_trim, 260),
    (scen_trim_ties, 200),
    (scen_split, 160),
    (scen_inplace_ops, 220),
    (scen_compare, 56),
    (scen_from_trace, 12),
    (scen_rec_construct, 120),
    (scen_rec_copy_duck, 12),
    (scen_rec_compare, 42),
    (scen_rec_sequence, 320),
    (scen_save_load, 120),
    (scen_load_malformed, 40),
    (scen_fault_each_op, 2),
    (scen_interface, 1),
    (scen_seam_patches, 3),
    (scen_warning_locations, 2),
]


def main():
    global TMP
    here = os.path.dirname(os.path.abspath(__file__))
    TMP = tempfile.mkdtemp(prefix="equiv_", dir=here)
    cwd = os.getcwd()
    os.chdir(TMP)
    os.mkdir("sub.dir")
    old_err = np.geterr()
    try:
        total = 0
        for number, (scenario, count) in enumerate(SCENARIOS):
            for i in range(count):
                rng = np.random.default_rng([14, number, i])
                random.seed(i)
                emit("SCENARIO", scenario.__name__, i)
                try:
                    scenario(rng, i)
                except BaseException as e:  # a scenario itself must not hide differences
                    if isinstance(e, (KeyboardInterrupt, SystemExit, MemoryError)):
                        raise
                    emit("scenario aborted", type(e).__name__, clean(e))
                total += 1
        # everything under raised floating point errors, a short extra pass
        np.seterr(all="raise")
        for i in range(60):
            rng = np.random.default_rng([15, i])
            emit("SCENARIO fp-raise", i)
            try:
                scen_rec_sequence(rng, i)
                scen_inplace_ops(rng, i)
            except BaseException as e:
                if isinstance(e, (KeyboardInterrupt, SystemExit, MemoryError)):
                    raise
                emit("scenario aborted", type(e).__name__, clean(e))
        np.seterr(**old_err)
        emit("leftover files", sorted(os.listdir(".")), sorted(os.listdir("sub.dir")))
        sys.stderr.write(f"{total} scenarios, {N_EMITTED[0]} observations\n")
    finally:
        np.seterr(**old_err)
        os.chdir(cwd)
        shutil.rmtree(TMP, ignore_errors=True)
        if _trace_file is not None:
            _trace_file.close()
    print("DIGEST " + HASH.hexdigest())


if __name__ == "__main__":
    main()
