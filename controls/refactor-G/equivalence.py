"""Equivalence harness for the statistics refactoring (refactor G).

Usage
-----
    python _refactor/equivalence.py run OUT.json        # exercise the tree this file lives in
    python _refactor/equivalence.py compare OLD.json NEW.json

``run`` imports hvsrpy from the parent directory of ``_refactor`` (so the
same script can be executed on the unchanged and on the refactored tree),
exercises the statistics of ``HvsrTraditional`` / ``HvsrAzimuthal`` (and the
private helpers they are built on) on many seeded random inputs and call
sequences, and stores every result in a json file.

Three classes of results are stored
    N: numeric results   -> must agree to rtol=1e-12, atol=1e-12*scale,
                            with the same nan / inf pattern,
    D: discrete results  -> must be exactly equal (masks, iteration counts,
                            selected peak frequencies, exceptions, meta),
    T: tie scenarios     -> inputs constructed to be genuine floating-point
                            ties (all peaks identical); only reported.
"""

import json
import logging
import os
import pathlib
import sys
import warnings

HERE = pathlib.Path(__file__).resolve().parent
sys.path.insert(0, str(HERE.parent))

import numpy as np  # noqa: E402

RTOL = 1e-12
N_STDS = (-2, -1, 0.5, 1, 2)
DISTRIBUTIONS = ("lognormal", "normal")


# --------------------------------------------------------------------------
# recording
# --------------------------------------------------------------------------
class Recorder():

    def __init__(self):
        self.results = {}

    def _store(self, key, entry):
        if key in self.results:
            raise KeyError(f"duplicate key {key}")
        self.results[key] = entry

    def numeric(self, key, fxn, scale=1.):
        """Store the numeric result (or the exception) of ``fxn()``."""
        try:
            with warnings.catch_warnings():
                warnings.simplefilter("ignore")
                value = fxn()
        except Exception as e:
            self._store("N:"+key, dict(exception=f"{type(e).__name__}: {e}"))
            return None
        array = np.asarray(value, dtype=float)
        self._store("N:"+key, dict(shape=list(array.shape),
                                   type=type(value).__name__,
                                   scale=float(scale),
                                   values=[float(x) for x in array.flatten()]))
        return value

    def discrete(self, key, fxn, prefix="D:"):
        try:
            with warnings.catch_warnings():
                warnings.simplefilter("ignore")
                value = fxn()
        except Exception as e:
            value = f"{type(e).__name__}: {e}"
        self._store(prefix+key, to_jsonable(value))
        return value


def to_jsonable(value):
    if isinstance(value, np.ndarray):
        return [to_jsonable(v) for v in value.tolist()]
    if isinstance(value, (list, tuple)):
        return [to_jsonable(v) for v in value]
    if isinstance(value, dict):
        return {str(k): to_jsonable(v) for k, v in sorted(value.items(), key=lambda kv: str(kv[0]))}
    if isinstance(value, (np.bool_, bool)):
        return bool(value)
    if isinstance(value, (np.integer, int)):
        return int(value)
    if isinstance(value, (np.floating, float)):
        return float(value)
    if value is None or isinstance(value, str):
        return value
    return repr(value)


# --------------------------------------------------------------------------
# random inputs
# --------------------------------------------------------------------------
def random_curves(rng, n_windows, n_frequencies, f0=None, scatter=0.15, p_outlier=0.15,
                  p_flat=0.1, noise=0.08, amplitude_scale=1.):
    """Random HVSR-like curves: a log-gaussian bump on a noisy background."""
    frequency = np.geomspace(0.2, 20, n_frequencies)
    lnf = np.log(frequency)
    f0 = float(np.exp(rng.uniform(np.log(0.6), np.log(8)))) if f0 is None else f0
    amplitude = np.empty((n_windows, n_frequencies))
    for idx in range(n_windows):
        if rng.random() < p_flat:
            # monotonic curve -> no peak -> nan peak.
            amplitude[idx] = amplitude_scale*rng.uniform(0.5, 3)*frequency**(-rng.uniform(0.05, 0.4))
            continue
        _scatter = scatter*(6 if rng.random() < p_outlier else 1)
        fi = f0*np.exp(_scatter*rng.standard_normal())
        width = rng.uniform(0.15, 0.5)
        height = rng.uniform(1.5, 6)
        bump = height*np.exp(-(lnf - np.log(fi))**2/(2*width**2))
        raw = rng.standard_normal(n_frequencies + 8)
        smooth = np.convolve(raw, np.ones(9)/9, mode="valid")
        amplitude[idx] = amplitude_scale*(1 + bump)*np.exp(noise*3*smooth)
    return frequency, amplitude


# --------------------------------------------------------------------------
# what is recorded about an object
# --------------------------------------------------------------------------
def data_scale(hvsr):
    amplitude = hvsr.amplitude if isinstance(hvsr.amplitude, list) else [hvsr.amplitude]
    finite = np.concatenate([a[np.isfinite(a)].flatten() for a in amplitude])
    return float(max(1., np.max(np.abs(finite)), np.max(hvsr.frequency)))


def masks_of(hvsr):
    hvsrs = hvsr.hvsrs if hasattr(hvsr, "hvsrs") else [hvsr]
    return dict(window=[h.valid_window_boolean_mask for h in hvsrs],
                peak=[h.valid_peak_boolean_mask for h in hvsrs],
                main_frq=[np.where(np.isnan(h._main_peak_frq), -1., h._main_peak_frq) for h in hvsrs],
                main_amp=[np.where(np.isnan(h._main_peak_amp), -1., h._main_peak_amp) for h in hvsrs])


def record_state(rec, tag, hvsr, discrete_prefix="D:"):
    """Record every statistic offered by ``hvsr`` plus its discrete state."""
    scale = data_scale(hvsr)
    numeric = rec.numeric if discrete_prefix == "D:" else (lambda key, fxn, scale=1.: rec.discrete(key, fxn, prefix="T:"))
    rec.discrete(f"{tag}/masks", lambda: masks_of(hvsr), prefix=discrete_prefix)
    rec.discrete(f"{tag}/meta", lambda: hvsr.meta, prefix=discrete_prefix)
    amplitude_before = [a.copy() for a in (hvsr.amplitude if isinstance(hvsr.amplitude, list) else [hvsr.amplitude])]
    for dist in DISTRIBUTIONS:
        s = 1. if dist == "lognormal" else scale
        numeric(f"{tag}/{dist}/mean_fn_frequency", lambda: hvsr.mean_fn_frequency(dist), scale)
        numeric(f"{tag}/{dist}/mean_fn_amplitude", lambda: hvsr.mean_fn_amplitude(dist), scale)
        numeric(f"{tag}/{dist}/std_fn_frequency", lambda: hvsr.std_fn_frequency(dist), s)
        numeric(f"{tag}/{dist}/std_fn_amplitude", lambda: hvsr.std_fn_amplitude(dist), s)
        numeric(f"{tag}/{dist}/cov_fn", lambda: hvsr.cov_fn(dist), s*s)
        numeric(f"{tag}/{dist}/mean_curve", lambda: hvsr.mean_curve(dist), scale)
        numeric(f"{tag}/{dist}/std_curve", lambda: hvsr.std_curve(dist), s)
        # the frequency of the peak of the mean curve is a discrete choice.
        rec.discrete(f"{tag}/{dist}/mean_curve_peak_frequency",
                     lambda: hvsr.mean_curve_peak(dist)[0], prefix=discrete_prefix)
        numeric(f"{tag}/{dist}/mean_curve_peak_amplitude", lambda: hvsr.mean_curve_peak(dist)[1], scale)
        if hasattr(hvsr, "hvsrs"):
            numeric(f"{tag}/{dist}/mean_curve_by_azimuth", lambda: hvsr.mean_curve_by_azimuth(dist), scale)
            rec.discrete(f"{tag}/{dist}/mean_curve_peak_by_azimuth_frequency",
                         lambda: hvsr.mean_curve_peak_by_azimuth(dist)[0], prefix=discrete_prefix)
            numeric(f"{tag}/{dist}/mean_curve_peak_by_azimuth_amplitude",
                    lambda: hvsr.mean_curve_peak_by_azimuth(dist)[1], scale)
        for n in N_STDS:
            numeric(f"{tag}/{dist}/nth_std_fn_frequency[{n}]", lambda: hvsr.nth_std_fn_frequency(n, dist), scale)
            numeric(f"{tag}/{dist}/nth_std_fn_amplitude[{n}]", lambda: hvsr.nth_std_fn_amplitude(n, dist), scale)
            numeric(f"{tag}/{dist}/nth_std_curve[{n}]", lambda: hvsr.nth_std_curve(n, dist), scale)
    # statistics never mutate the data or the masks.
    amplitude_after = hvsr.amplitude if isinstance(hvsr.amplitude, list) else [hvsr.amplitude]
    unchanged = all(np.array_equal(a, b) for a, b in zip(amplitude_before, amplitude_after))
    rec.discrete(f"{tag}/amplitude_unchanged", lambda: unchanged, prefix=discrete_prefix)
    rec.discrete(f"{tag}/masks_after_statistics", lambda: masks_of(hvsr), prefix=discrete_prefix)


def toggle_masks(rng, hvsr, p=0.25):
    """Flip validity of random windows (may make a window w/o peak 'valid')."""
    hvsrs = hvsr.hvsrs if hasattr(hvsr, "hvsrs") else [hvsr]
    flips = rng.random(hvsrs[0].n_curves) < p
    for h in hvsrs:
        h.valid_window_boolean_mask[flips] = ~h.valid_window_boolean_mask[flips]
        h.valid_peak_boolean_mask[flips] = h.valid_window_boolean_mask[flips]
        if not np.any(h.valid_window_boolean_mask):
            h.valid_window_boolean_mask[0] = True
            h.valid_peak_boolean_mask[0] = True


class TieDetector(logging.Handler):
    """Inspect the debug log of the rejection algorithm for floating-point ties.

    The algorithm takes its decisions with ``std == 0``, ``diff == 0``,
    ``peak > lower_bound``, ``peak < upper_bound``, ``d_diff < 0.01`` and
    ``s_diff < 0.01``; a decision is a genuine tie if the two sides agree to
    within ``TIE`` (relative), in which case round-off decides the outcome.
    """
    TIE = 1e-9

    def __init__(self, hvsr, n, distribution_fn):
        super().__init__(level=logging.DEBUG)
        self.hvsrs = hvsr.hvsrs if hasattr(hvsr, "hvsrs") else [hvsr]
        self.n, self.distribution_fn = n, distribution_fn
        self.values, self.tie = {}, False

    def emit(self, record):
        message = record.getMessage().strip()
        for name in ("mean_fn_before", "std_fn_before", "diff_before", "std_fn_after", "d_diff", "s_diff"):
            if message.startswith(name + ":"):
                self.values[name] = float(message.split(":")[1])
                self.check(name)

    def check(self, name):
        v, tie = self.values, self.TIE
        if name in ("std_fn_before", "std_fn_after"):
            reference = 1. if self.distribution_fn == "lognormal" else abs(v["mean_fn_before"])
            self.tie |= bool(v[name] < tie*reference)
        if name == "std_fn_before" and np.isfinite(v[name]):
            m, s = v["mean_fn_before"], v["std_fn_before"]
            for sign in (-1, 1):
                bound = m + sign*self.n*s if self.distribution_fn == "normal" else m*np.exp(sign*self.n*s)
                for hvsr in self.hvsrs:
                    peaks = hvsr._main_peak_frq[~np.isnan(hvsr._main_peak_frq)]
                    self.tie |= bool(np.any(np.abs(peaks - bound) < tie*abs(bound)))
        if name == "diff_before":
            self.tie |= bool(v[name] < tie*abs(v["mean_fn_before"]))
        if name in ("d_diff", "s_diff"):
            self.tie |= bool(abs(v[name] - 0.01) < tie)


def rejection(rec, key, hvsr, prefix, **kwargs):
    """Run the frequency-domain window rejection; record iterations and tie flag."""
    import hvsrpy
    logger = logging.getLogger("hvsrpy.window_rejection")
    detector = TieDetector(hvsr, kwargs["n"], kwargs["distribution_fn"])
    level = logger.level
    logger.addHandler(detector)
    logger.setLevel(logging.DEBUG)
    logger.propagate = False
    try:
        rec.discrete(f"{key}/iterations", lambda: hvsrpy.frequency_domain_window_rejection(hvsr, **kwargs),
                     prefix=prefix)
    finally:
        logger.removeHandler(detector)
        logger.setLevel(level)
    rec.discrete(f"{key}/tie", lambda: detector.tie, prefix="F:")


def call_sequence(rec, rng, tag, hvsr, prefix="D:"):
    record_state(rec, f"{tag}/0-initial", hvsr, prefix)

    n = float(rng.choice([1., 1.5, 2., 2.5, 3.]))
    dist_fn, dist_mc = str(rng.choice(DISTRIBUTIONS)), str(rng.choice(DISTRIBUTIONS))
    rejection(rec, f"{tag}/1-fdwra", hvsr, prefix, n=n, distribution_fn=dist_fn, distribution_mc=dist_mc)
    record_state(rec, f"{tag}/1-fdwra", hvsr, prefix)

    toggle_masks(rng, hvsr)
    record_state(rec, f"{tag}/2-toggled", hvsr, prefix)

    low, high = sorted(np.exp(rng.uniform(np.log(0.3), np.log(15), size=2)))
    search_range = [(float(low), float(high)), (None, float(high)), (float(low), None)][rng.integers(3)]
    find_peaks_kwargs = [None, dict(prominence=0.2), dict(distance=3)][rng.integers(3)]
    rec.discrete(f"{tag}/3-bounded/update", lambda: hvsr.update_peaks_bounded(search_range_in_hz=search_range,
                                                                             find_peaks_kwargs=find_peaks_kwargs),
                 prefix=prefix)
    record_state(rec, f"{tag}/3-bounded", hvsr, prefix)

    n = float(rng.choice([1., 2., 3.]))
    max_iterations = int(rng.choice([1, 3, 50]))
    rejection(rec, f"{tag}/4-fdwra-bounded", hvsr, prefix, n=n, max_iterations=max_iterations,
              distribution_fn=dist_mc, distribution_mc=dist_fn,
              search_range_in_hz=search_range, find_peaks_kwargs=find_peaks_kwargs)
    record_state(rec, f"{tag}/4-fdwra-bounded", hvsr, prefix)


# --------------------------------------------------------------------------
# scenarios
# --------------------------------------------------------------------------
def private_helpers(rec):
    from hvsrpy.statistics import _nanmean_weighted, _nanstd_weighted, _nth_std_factory
    rng = np.random.default_rng(1234)
    for trial in range(400):
        tag = f"helpers/{trial}"
        n = int(rng.integers(1, 60))
        two_d = trial % 3 == 0
        shape = (n, int(rng.integers(1, 12))) if two_d else (n,)
        offset = float(rng.choice([0., 1., 100., 1e4]))
        values = offset + np.exp(rng.normal(0, float(rng.choice([0.01, 0.3, 1.5])), size=shape))
        if trial % 2 == 0:
            values[rng.random(shape) < 0.2] = np.nan
        kwargs = dict(axis=0) if (two_d or trial % 5 == 0) else None
        scale = float(np.nanmax(np.abs(values))) if np.any(~np.isnan(values)) else 1.

        # weights: None, per-row reliability weights (zero at missing), or quirky (non-zero at missing).
        kind = trial % 4
        if kind == 0:
            weights = None
        else:
            weights = rng.uniform(0.1, 1, size=n)
            if not two_d and kind != 3:
                weights[np.isnan(values)] = 0
            weights = weights/np.sum(weights)
            if two_d:
                weights = weights[:, np.newaxis]
        for dist in ("lognormal", "normal", "log-normal"):
            s = 1. if dist != "normal" else scale
            rec.numeric(f"{tag}/{dist}/mean", lambda: _nanmean_weighted(dist, values, weights, kwargs), scale)
            for denominator in ("nist", "cheng"):
                rec.numeric(f"{tag}/{dist}/std/{denominator}",
                            lambda: _nanstd_weighted(dist, values, weights, kwargs, denominator=denominator), s)
        rec.discrete(f"{tag}/values_unchanged_type", lambda: str(values.dtype))

    for trial in range(100):
        mean = np.exp(rng.normal(0, 2, size=rng.integers(1, 20)))
        std = np.abs(rng.normal(0, 0.5, size=mean.shape))
        n = float(rng.choice([-3, -2, -1, 0, 0.5, 1, 2, 3]))
        for dist in DISTRIBUTIONS:
            rec.numeric(f"nth/{trial}/{dist}/array", lambda: _nth_std_factory(n, dist, mean, std), float(np.max(mean)))
            rec.numeric(f"nth/{trial}/{dist}/scalar", lambda: _nth_std_factory(n, dist, mean[0], std[0]), float(mean[0]))

    # special values and failure modes.
    specials = dict(empty=np.array([]), all_nan=np.array([np.nan, np.nan]), single=np.array([2.5]),
                    with_zero=np.array([0., 1., 2., 4.]), all_zero=np.array([0., 0., 0.]),
                    with_inf=np.array([1., np.inf, 3.]), identical=np.full(7, 0.3),
                    empty_2d=np.empty((0, 4)), single_2d=np.array([[1., 2., 3.]]),
                    zero_column=np.array([[0., 1.], [2., 3.], [0., 5.]]))
    for name, values in specials.items():
        kwargs = dict(axis=0) if values.ndim == 2 else None
        for dist in ("lognormal", "normal", "gamma"):
            rec.numeric(f"special/{name}/{dist}/mean", lambda: _nanmean_weighted(dist, values, None, kwargs))
            rec.numeric(f"special/{name}/{dist}/std", lambda: _nanstd_weighted(dist, values, None, kwargs))
            rec.numeric(f"special/{name}/{dist}/nth", lambda: _nth_std_factory(2, dist, _nanmean_weighted(dist, values, None, kwargs),
                                                                              _nanstd_weighted(dist, values, None, kwargs)))
    rec.numeric("special/bad_distribution_type", lambda: _nanmean_weighted(None, np.array([1., 2.])))
    rec.numeric("special/bad_denominator", lambda: _nanstd_weighted("normal", np.array([1., 2.]), denominator="other"))


def traditional(rec):
    import hvsrpy
    rng = np.random.default_rng(20240607)
    for trial in range(120):
        n_windows = int(rng.choice([1, 2, 3, 5, 8, 13, 30, 60, 150]))
        n_frequencies = int(rng.choice([24, 64, 128, 257, 400]))
        frequency, amplitude = random_curves(rng, n_windows, n_frequencies,
                                             scatter=float(rng.choice([0.1, 0.2, 0.4])),
                                             amplitude_scale=float(rng.choice([1., 1., 1e-3, 1e3])))
        hvsr = hvsrpy.HvsrTraditional(frequency, amplitude, meta=dict(trial=trial))
        call_sequence(rec, rng, f"traditional/{trial}", hvsr)

    # curves with zero amplitudes (log -> -inf) and without any peak.
    frequency, amplitude = random_curves(rng, 6, 30)
    amplitude[1, 4] = 0.
    amplitude[3, 4] = 0.
    amplitude[2, 10] = 0.
    record_state(rec, "traditional/zeros", hvsrpy.HvsrTraditional(frequency, amplitude))
    frequency, amplitude = random_curves(rng, 5, 30, p_flat=1.1)
    record_state(rec, "traditional/all_flat", hvsrpy.HvsrTraditional(frequency, amplitude))
    frequency, amplitude = random_curves(rng, 5, 30)
    hvsr = hvsrpy.HvsrTraditional(frequency, amplitude)
    hvsr.valid_window_boolean_mask[:] = False
    hvsr.valid_peak_boolean_mask[:] = False
    record_state(rec, "traditional/none_valid", hvsr)
    rec.numeric("traditional/bad_distribution/mean", lambda: hvsr.mean_fn_frequency("gamma"))
    rec.numeric("traditional/bad_distribution/cov", lambda: hvsr.cov_fn("gamma"))
    rec.numeric("traditional/bad_distribution/nth", lambda: hvsr.nth_std_curve(1, "gamma"))


def azimuthal(rec):
    import hvsrpy
    rng = np.random.default_rng(77)
    for trial in range(60):
        n_azimuths = int(rng.choice([1, 2, 3, 6, 12]))
        n_windows = int(rng.choice([2, 3, 5, 12, 40]))
        n_frequencies = int(rng.choice([24, 64, 128, 300]))
        f0 = float(np.exp(rng.uniform(np.log(0.6), np.log(8))))
        hvsrs = []
        for _ in range(n_azimuths):
            frequency, amplitude = random_curves(rng, n_windows, n_frequencies, f0=f0,
                                                 scatter=float(rng.choice([0.1, 0.2, 0.4])), p_flat=0.05)
            hvsrs.append(hvsrpy.HvsrTraditional(frequency, amplitude))
        azimuths = np.linspace(0, 180, n_azimuths, endpoint=False)
        hvsr = hvsrpy.HvsrAzimuthal(hvsrs, azimuths, meta=dict(trial=trial))
        call_sequence(rec, rng, f"azimuthal/{trial}", hvsr)

    # an azimuth without valid windows / peaks.
    hvsrs = [hvsrpy.HvsrTraditional(*random_curves(rng, 4, 25, f0=2.)) for _ in range(3)]
    hvsr = hvsrpy.HvsrAzimuthal(hvsrs, [0, 60, 120])
    hvsr.hvsrs[1].valid_window_boolean_mask[:] = False
    hvsr.hvsrs[1].valid_peak_boolean_mask[:] = False
    record_state(rec, "azimuthal/azimuth_without_windows", hvsr)
    hvsrs = [hvsrpy.HvsrTraditional(*random_curves(rng, 1, 25, f0=2., p_flat=0)) for _ in range(1)]
    record_state(rec, "azimuthal/single_window_single_azimuth", hvsrpy.HvsrAzimuthal(hvsrs, [0]))
    hvsrs = [hvsrpy.HvsrTraditional(*random_curves(rng, 1, 25, f0=2., p_flat=0)) for _ in range(4)]
    record_state(rec, "azimuthal/single_window_per_azimuth", hvsrpy.HvsrAzimuthal(hvsrs, [0, 45, 90, 135]))


def ties(rec):
    """All peaks at the same frequency: std is zero up to round-off (genuine tie)."""
    import hvsrpy
    rng = np.random.default_rng(5)
    for trial in range(40):
        n_windows = int(rng.integers(2, 12))
        frequency, amplitude = random_curves(rng, n_windows, 40, scatter=0., p_outlier=0., p_flat=0., noise=0.)
        hvsr = hvsrpy.HvsrTraditional(frequency, amplitude)
        for dist in DISTRIBUTIONS:
            rec.discrete(f"ties/{trial}/{dist}/std_is_zero", lambda: bool(hvsr.std_fn_frequency(dist) == 0), prefix="T:")
        dist = DISTRIBUTIONS[trial % 2]
        rec.discrete(f"ties/{trial}/fdwra[{dist}]",
                     lambda: hvsrpy.frequency_domain_window_rejection(hvsr, distribution_fn=dist), prefix="T:")
        rec.discrete(f"ties/{trial}/masks", lambda: masks_of(hvsr)["window"], prefix="T:")


def run(path):
    import hvsrpy
    rec = Recorder()
    rec.results["tree"] = os.path.dirname(os.path.dirname(os.path.abspath(hvsrpy.__file__)))
    private_helpers(rec)
    traditional(rec)
    azimuthal(rec)
    ties(rec)
    with open(path, "w") as f:
        json.dump(rec.results, f)
    print(f"{len(rec.results)} results from {rec.results['tree']} written to {path}")


# --------------------------------------------------------------------------
# comparison
# --------------------------------------------------------------------------
def compare(path_old, path_new):
    with open(path_old) as f:
        old = json.load(f)
    with open(path_new) as f:
        new = json.load(f)
    print(f"old tree: {old.pop('tree')}\nnew tree: {new.pop('tree')}")

    failures = []
    if set(old) != set(new):
        failures.append(f"different keys: {sorted(set(old) ^ set(new))[:10]}")

    # call sequences in which the rejection algorithm met a genuine floating-point
    # tie (in either tree): results from that step onwards are only reported.
    def scenario_and_step(key):
        parts = key[2:].split("/")
        step = int(parts[2].split("-")[0]) if (len(parts) > 2 and parts[2][0].isdigit()) else 0
        return "/".join(parts[:2]), step

    first_tie_step = {}
    for key in sorted(set(old) & set(new)):
        if key.startswith("F:") and (old[key] is True or new[key] is True):
            scenario, step = scenario_and_step(key)
            first_tie_step[scenario] = min(step, first_tie_step.get(scenario, step))
    n_sequences = len({scenario_and_step(k)[0] for k in old if k.startswith("F:")})
    print(f"call sequences: {n_sequences}, of which {len(first_tie_step)} met a floating-point tie in the rejection algorithm")

    n_numeric, n_values, n_bitwise_different, n_discrete, n_exceptions = 0, 0, 0, 0, 0
    worst_rel, worst_rel_key, worst_scaled, worst_scaled_key = 0., None, 0., None
    tie_differences, n_after_tie = [], 0
    by_kind = {}
    for key in sorted(set(old) & set(new)):
        a, b = old[key], new[key]
        scenario, step = scenario_and_step(key)
        if key.startswith("F:"):
            continue
        elif step >= first_tie_step.get(scenario, np.inf):
            n_after_tie += 1
            if a != b and key.endswith("/iterations"):
                tie_differences.append(key)
        elif key.startswith("D:"):
            n_discrete += 1
            if a != b:
                failures.append(f"{key}: discrete results differ: {str(a)[:200]} != {str(b)[:200]}")
        elif key.startswith("T:"):
            if a != b:
                tie_differences.append(key)
        elif key.startswith("N:"):
            n_numeric += 1
            if ("exception" in a) or ("exception" in b):
                n_exceptions += 1
                if a != b:
                    failures.append(f"{key}: {a} != {b}")
                continue
            if a["shape"] != b["shape"] or a["type"] != b["type"]:
                failures.append(f"{key}: shape/type {a['shape']} {a['type']} != {b['shape']} {b['type']}")
                continue
            x, y = np.array(a["values"], dtype=float), np.array(b["values"], dtype=float)
            n_values += x.size
            finite = np.isfinite(x) & np.isfinite(y)
            same_special = np.array_equal(np.isnan(x), np.isnan(y)) and np.array_equal(x[~finite], y[~finite], equal_nan=True)
            if not same_special:
                failures.append(f"{key}: nan/inf pattern differs: {x} vs {y}")
                continue
            x, y = x[finite], y[finite]
            if x.size == 0:
                continue
            n_bitwise_different += int(np.sum(x != y))
            # atol scaled to the data: the magnitude of the input (normal) or one (log space),
            # but never less than the magnitude of the result itself.
            scale = max(a["scale"], float(np.max(np.abs(x))))
            diff = np.abs(x - y)
            if np.any(diff > RTOL*np.abs(x) + RTOL*scale):
                failures.append(f"{key}: max abs diff {np.max(diff)} (scale {scale})")
            scaled = float(np.max(diff)/scale)
            if scaled > worst_scaled:
                worst_scaled, worst_scaled_key = scaled, key
            significant = np.abs(x) > 1e-6*scale
            if np.any(significant):
                rel = float(np.max(diff[significant]/np.abs(x[significant])))
                if rel > worst_rel:
                    worst_rel, worst_rel_key = rel, key
                kind = key.split("/")[-1].split("[")[0] + ("" if "[-" not in key else "[n<0]")
                kind = ("helpers:" if key.startswith(("N:helpers", "N:nth", "N:special")) else key[2:5] + ":") + kind
                by_kind[kind] = max(by_kind.get(kind, 0.), rel)
        else:
            failures.append(f"unknown key class {key}")

    print(f"numeric results compared : {n_numeric} ({n_values} values, {n_exceptions} are exceptions)")
    print(f"values not bit-identical : {n_bitwise_different}")
    print(f"discrete results compared: {n_discrete}")
    print(f"largest relative difference        : {worst_rel:.3e} at {worst_rel_key}")
    print(f"largest difference / scale of data : {worst_scaled:.3e} at {worst_scaled_key}")
    print("largest relative difference by kind of result:")
    for kind in sorted(by_kind):
        print(f"    {kind:50s} {by_kind[kind]:.3e}")
    print(f"results at or after a tie in a call sequence (not compared): {n_after_tie}")
    print(f"tie scenarios with different outcome (reported only): {len(tie_differences)}")
    for key in tie_differences[:10]:
        print(f"    {key}: {old[key]} -> {new[key]}")
    if failures:
        print(f"FAILURES: {len(failures)}")
        for failure in failures[:40]:
            print("   ", failure)
        return 1
    print("EQUIVALENT: all numeric results within rtol 1e-12, all discrete results identical.")
    return 0


if __name__ == "__main__":
    if len(sys.argv) == 3 and sys.argv[1] == "run":
        run(sys.argv[2])
    elif len(sys.argv) == 4 and sys.argv[1] == "compare":
        sys.exit(compare(sys.argv[2], sys.argv[3]))
    else:
        print(__doc__)
        sys.exit(2)
