"""Behavioural fingerprint of hvsrpy.processing and hvsrpy.preprocessing.

Runs several hundred seeded, randomised calls and call sequences (including
error paths and unusual-but-legal argument types) and prints one line
``DIGEST <sha256>`` of everything observable: returned values (exact bits,
NaN canonicalised), exception types and messages, text printed to stdout,
hvsrpy's own warnings, the state of the inputs (records and settings) after
each call, the contents of files written from the results, and the results
again after the inputs were overwritten (independence from the inputs).

numpy/scipy ``RuntimeWarning``s (invalid value, divide by zero, ...) are not
part of the fingerprint: their number depends on how many ufunc calls touch
non-finite data, not on the values that are computed.

Set EQUIV_RUNTIME_WARNINGS=1 to fingerprint those warnings as well (the digest
is then not expected to be the same for the two trees, see notes.md).
Set EQUIV_VERBOSE=1 to get a per-scenario summary on stderr and
EQUIV_TRACE=<file> to write every fingerprinted item to a file (to locate a
difference between two trees with diff).
"""

import contextlib
import copy
import hashlib
import io
import os
import sys
import tempfile
import warnings

import numpy as np

import hvsrpy
from hvsrpy import TimeSeries, SeismicRecording3C
from hvsrpy import processing as P
from hvsrpy import preprocessing as PP
from hvsrpy import settings as S
from hvsrpy.instrument_response import InstrumentTransferFunction
from hvsrpy.psd import Psd

VERBOSE = bool(os.environ.get("EQUIV_VERBOSE"))
RUNTIME_WARNINGS = bool(os.environ.get("EQUIV_RUNTIME_WARNINGS"))
DIGEST = hashlib.sha256()
STATS = {}
HERE = os.path.dirname(os.path.abspath(__file__))


# --------------------------------------------------------------------------
# canonical encoding
# --------------------------------------------------------------------------

def enc(obj, depth=0):
    if depth > 12:
        return "<deep>"
    if obj is None or isinstance(obj, (bool, int, str, bytes)):
        return f"{type(obj).__name__}:{obj!r}"
    if isinstance(obj, float):
        return "float:nan" if obj != obj else f"float:{obj.hex()}"
    if isinstance(obj, complex):
        return f"complex:{enc(obj.real)}:{enc(obj.imag)}"
    if isinstance(obj, np.ndarray):
        arr = obj
        if arr.dtype.kind == "f":
            arr = np.where(np.isnan(arr), np.nan, arr)
        if arr.dtype.kind == "O":
            return f"ndO{arr.shape}[" + ",".join(enc(x, depth+1) for x in arr.ravel()) + "]"
        data = hashlib.sha256(np.ascontiguousarray(arr).tobytes()).hexdigest()
        return f"nd:{arr.dtype.str}:{arr.shape}:{data}"
    if isinstance(obj, np.generic):
        return f"{type(obj).__name__}({enc(obj.item(), depth+1)})"
    if isinstance(obj, dict):
        return "dict{" + ",".join(f"{enc(k, depth+1)}={enc(v, depth+1)}" for k, v in obj.items()) + "}"
    if isinstance(obj, (list, tuple)):
        return type(obj).__name__ + "[" + ",".join(enc(x, depth+1) for x in obj) + "]"
    if isinstance(obj, (set, frozenset)):
        return type(obj).__name__ + "[" + ",".join(sorted(enc(x, depth+1) for x in obj)) + "]"
    if isinstance(obj, TimeSeries):
        return f"TS({enc(obj.amplitude, depth+1)},{enc(obj.dt_in_seconds)})"
    if isinstance(obj, SeismicRecording3C):
        return ("REC(" + ",".join(enc(getattr(obj, c), depth+1) for c in ("ns", "ew", "vt")) +
                f",{enc(obj.degrees_from_north, depth+1)},{enc(obj.meta, depth+1)})")
    if isinstance(obj, hvsrpy.HvsrTraditional):
        return ("HT(" + ",".join(enc(getattr(obj, a), depth+1) for a in
                                 ("frequency", "amplitude", "meta", "n_curves",
                                  "valid_window_boolean_mask", "valid_peak_boolean_mask",
                                  "_main_peak_frq", "_main_peak_amp")) + ")")
    if isinstance(obj, hvsrpy.HvsrAzimuthal):
        return f"HA({enc(obj.hvsrs, depth+1)},{enc(obj.azimuths, depth+1)},{enc(obj.meta, depth+1)})"
    if isinstance(obj, hvsrpy.HvsrDiffuseField):
        return f"HD({enc(obj.frequency, depth+1)},{enc(obj.amplitude, depth+1)},{enc(getattr(obj, 'meta', None), depth+1)})"
    if isinstance(obj, Psd):
        return f"PSD({enc(obj.frequency, depth+1)},{enc(obj.amplitude, depth+1)},{enc(obj.meta, depth+1)})"
    if isinstance(obj, S.Settings):
        raw = {name: getattr(obj, name, "<missing>") for name in obj.attrs}
        return f"SET:{type(obj).__name__}({enc(raw, depth+1)})"
    if isinstance(obj, InstrumentTransferFunction):
        return f"ITF({enc(obj.poles)},{enc(obj.zeros)},{enc(obj.instrument_sensitivity)},{enc(obj.normalization_factor)})"
    return f"<{type(obj).__name__}>"


TRACE = open(os.environ["EQUIV_TRACE"], "w") if os.environ.get("EQUIV_TRACE") else None


def emit(*parts):
    for part in parts:
        text = part if isinstance(part, str) else enc(part)
        DIGEST.update(text.encode())
        DIGEST.update(b"\n")
        if TRACE is not None:
            TRACE.write(text.replace("\n", "\\n") + "\n")


def observe(label, function, *args, **kwargs):
    """Call function, record everything observable, return (ok, value)."""
    stdout = io.StringIO()
    ok, value = True, None
    with warnings.catch_warnings(record=True) as caught, contextlib.redirect_stdout(stdout):
        warnings.simplefilter("always")
        try:
            value = function(*args, **kwargs)
        except Exception as e:  # noqa
            ok, value = False, e
    kept = [(w.category.__name__, str(w.message)) for w in caught
            if RUNTIME_WARNINGS or not issubclass(w.category, RuntimeWarning)]
    if ok:
        emit(f"{label}|ok", value)
    else:
        emit(f"{label}|raised|{type(value).__name__}|{value}")
    emit("stdout", stdout.getvalue(), "warnings", kept)
    key = ":".join(part for part in label.split(":")[:2] if not part.isdigit())
    stat = STATS.setdefault(key, [0, 0, 0, 0])
    stat[0 if ok else 1] += 1
    stat[2] += len(kept)
    stat[3] += bool(stdout.getvalue())
    return ok, value


# --------------------------------------------------------------------------
# generators
# --------------------------------------------------------------------------

DTS = [0.01, 0.005, 0.02, 0.004, 0.0125]
RECORD_KINDS = ["normal"]*8 + ["tiny", "huge", "sine", "const", "zero_v", "ints",
                               "ramp", "spike"]
SPECIAL_KINDS = ["nan", "inf", "zero_all", "neg_inf_h"]


def make_record(rng, n, dt, kind="normal", with_meta=False):
    t = np.arange(n)*dt
    data = rng.standard_normal((3, n))
    if kind == "tiny":
        data *= 1e-13
    elif kind == "huge":
        data *= 1e11
    elif kind == "sine":
        f0 = rng.uniform(0.5, 0.2/dt)
        data = np.vstack([np.sin(2*np.pi*f0*t + p) for p in rng.uniform(0, 6, 3)])
        data[2] += 0.01*rng.standard_normal(n)
    elif kind == "const":
        data[0] = 3.
        data[2] += 1.
    elif kind == "zero_v":
        data[2] = 0.
    elif kind == "ints":
        data = np.round(data*100)
    elif kind == "ramp":
        data += np.linspace(-5, 20, n)
    elif kind == "spike":
        data[:, n//3] += 500.
    elif kind == "nan":
        data[rng.integers(0, 3), rng.integers(0, n)] = np.nan
    elif kind == "inf":
        data[rng.integers(0, 3), rng.integers(1, max(2, n-1))] = np.inf
    elif kind == "neg_inf_h":
        data[0, n//2] = -np.inf
    elif kind == "zero_all":
        data[:] = 0.
    meta = None
    if with_meta:
        meta = {"file name(s)": [f"rec_{int(rng.integers(0, 99))}.mseed"],
                "note": {"list": [1, 2.5, "x"], "n": int(n)}}
    degrees = [0., 0., 30., -10., 370., 90][int(rng.integers(0, 6))]
    container = int(rng.integers(0, 3))
    comps = []
    for row in data:
        amp = row if container == 0 else (row.tolist() if container == 1 else row.astype(np.float32) if kind == "ints" else tuple(row))
        comps.append(TimeSeries(amp, dt if rng.random() < 0.8 else np.float64(dt)))
    return SeismicRecording3C(*comps, degrees_from_north=degrees, meta=meta)


def make_records(rng, special=False, max_records=6, mixed_dt=None):
    n_records = int(rng.integers(1, max_records+1))
    mixed_dt = (rng.random() < 0.45) if mixed_dt is None else mixed_dt
    base_dt = DTS[int(rng.integers(0, len(DTS)))]
    same_length = rng.random() < 0.4
    n0 = int(rng.integers(150, 1400))
    records = []
    for idx in range(n_records):
        dt = DTS[int(rng.integers(0, len(DTS)))] if mixed_dt else base_dt
        n = n0 if same_length else int(rng.integers(150, 1400))
        kind = RECORD_KINDS[int(rng.integers(0, len(RECORD_KINDS)))]
        if special and idx == int(rng.integers(0, n_records)):
            kind = SPECIAL_KINDS[int(rng.integers(0, len(SPECIAL_KINDS)))]
        records.append(make_record(rng, n, dt, kind, with_meta=(idx == 0 and rng.random() < 0.5)))
    container = rng.random()
    if container < 0.15:
        records = tuple(records)
    return records


def make_smoothing(rng, records, allow_bad=True):
    fnyq = 1/(2*max(r.ns.dt_in_seconds for r in records)) if len(records) else 25.
    options = [("konno_and_ohmachi", [40, 20.5, np.float64(30.), 40.]),
               ("parzen", [0.5, 1.0, np.float32(0.75)]),
               ("savitzky_and_golay", [9, 5, 7.0, np.int64(11)]),
               ("linear_rectangular", [0.5, 2.0]),
               ("log_rectangular", [0.05, 0.2]),
               ("linear_triangular", [0.5, 1.5]),
               ("log_triangular", [0.05, np.float64(0.3)])]
    operator, bandwidths = options[int(rng.integers(0, len(options)))]
    if rng.random() < 0.35:
        operator, bandwidths = options[0]
    bandwidth = bandwidths[int(rng.integers(0, len(bandwidths)))]
    nf = int(rng.integers(2, 22))
    top = rng.uniform(0.3, 0.95)
    roll = rng.random()
    if allow_bad and roll < 0.04:
        top = 1.6
    fcs = np.geomspace(0.3, fnyq*top, nf) if rng.random() < 0.7 else np.linspace(0.2, fnyq*top, nf)
    if allow_bad and 0.04 <= roll < 0.06:
        fcs[0] = 0.
    if allow_bad and 0.06 <= roll < 0.075:
        operator = "boxcar"
    if allow_bad and 0.075 <= roll < 0.09 and operator == "savitzky_and_golay":
        bandwidth = 4
    form = rng.random()
    if form < 0.2:
        fcs = fcs.tolist()
    elif form < 0.3:
        fcs = tuple(fcs.tolist())
    elif form < 0.35:
        fcs = fcs.astype(np.float32)
    smoothing = dict(operator=operator if rng.random() < 0.9 else np.str_(operator),
                     bandwidth=bandwidth, center_frequencies_in_hz=fcs)
    if allow_bad and 0.09 <= roll < 0.1:
        del smoothing["bandwidth"]
    return smoothing


def make_fft_settings(rng, allow_bad=True):
    roll = rng.random()
    if roll < 0.30:
        return dict(n=None)
    if roll < 0.45:
        return None
    if roll < 0.50:
        return {}
    if roll < 0.58:
        return dict(n=int(rng.choice([1024, 4096, 40000, 65536, 33333])))
    if roll < 0.66:
        return dict(n=[np.int64(65536), np.int32(2048), np.uint16(50000), np.int64(40001)][int(rng.integers(0, 4))])
    if roll < 0.74:
        return dict(n=None, norm=["ortho", "forward", "backward", None][int(rng.integers(0, 4))])
    if roll < 0.80:
        return dict(norm="ortho")
    if roll < 0.86:
        return dict(n=None, axis=[-1, 0][int(rng.integers(0, 2))])
    if roll < 0.90:
        return dict(axis=-1, n=np.int64(32768), norm="backward")
    if not allow_bad:
        return dict(n=None)
    if roll < 0.93:
        return dict(n=None, bogus=1)
    if roll < 0.95:
        return dict(n=None, norm="nope")
    if roll < 0.97:
        return dict(n=40000.)
    if roll < 0.985:
        return dict(n="big")
    return dict(n=None, axis=1)


def make_window(rng, allow_bad=True):
    options = [["tukey", 0.1], ["tukey", 0.1], ("tukey", 0.2), ["tukey", 0.], ["tukey", 1.],
               ["tukey", np.float32(0.5)], ["tukey", np.float64(0.05)], ["tukey"], [],
               ("tukey", 1), ["tukey", 1.7], ["tukey", -0.2], np.array(["tukey", 0.25], dtype=object)]
    if allow_bad:
        options += [["hann", 0.1], ["tukey", "wide"], ["tukey", 0.1, 3], "tukey"]
    if rng.random() < 0.5:
        return ["tukey", 0.1]
    return copy.deepcopy(options[int(rng.integers(0, len(options)))])


HANDLE = ["frequency_domain_resampling", "keeping_smallest_time_step",
          "keeping_majority_time_step"]
COMBINE = list(P.COMBINE_HORIZONTAL_REGISTER)


def make_handle(rng, allow_bad=True):
    if allow_bad and rng.random() < 0.04:
        return "keeping_everything"
    handle = HANDLE[int(rng.integers(0, 3))]
    return np.str_(handle) if rng.random() < 0.1 else handle


def make_azimuths(rng, allow_bad=True):
    roll = rng.random()
    if roll < 0.3:
        return np.arange(0, 180, int(rng.choice([30, 45, 60, 90])))
    if roll < 0.5:
        return sorted(rng.uniform(0, 180, int(rng.integers(1, 5))).tolist())
    if roll < 0.6:
        return tuple(int(a) for a in rng.integers(0, 181, int(rng.integers(1, 4))))
    if roll < 0.7:
        return np.array([0., 45.5, 122.123456789], dtype=np.float32)
    if roll < 0.8:
        return [np.float64(10.), 20, np.int64(170)]
    if roll < 0.9 or not allow_bad:
        return np.linspace(0, 180, int(rng.integers(2, 7)))
    if roll < 0.93:
        return []
    if roll < 0.96:
        return [10., 190.]
    if roll < 0.98:
        return [-5., 30.]
    return [10., "north"]


def make_processing_settings(rng, records, kind=None, allow_bad=True):
    kind = kind or ["traditional", "traditional", "single", "rotdpp", "azimuthal", "diffuse", "psd"][int(rng.integers(0, 7))]
    common = dict(window_type_and_width=make_window(rng, allow_bad),
                  smoothing=make_smoothing(rng, records, allow_bad),
                  fft_settings=make_fft_settings(rng, allow_bad),
                  handle_dissimilar_time_steps_by=make_handle(rng, allow_bad))
    if kind == "traditional":
        method = COMBINE[int(rng.integers(0, len(COMBINE)))]
        if rng.random() < 0.1:
            method = np.str_(method)
        if allow_bad and rng.random() < 0.03:
            method = "harmonic_mean"
        return S.HvsrTraditionalProcessingSettings(method_to_combine_horizontals=method, **common)
    if kind == "single":
        azimuth = [20., 0, 90., np.float64(33.3), np.float32(120.5), 179.999, -45., 400, np.int64(60)][int(rng.integers(0, 9))]
        method = "single_azimuth" if rng.random() < 0.7 else "directional_energy"
        return S.HvsrTraditionalSingleAzimuthProcessingSettings(azimuth_in_degrees=azimuth,
                                                                method_to_combine_horizontals=method, **common)
    if kind == "rotdpp":
        ppth = [50., 0, 100, 84.1, np.float64(16.), 33, 50., [50.], np.array(25.), (16., 84.),
                np.float32(75.)][int(rng.integers(0, 11))]
        if allow_bad and rng.random() < 0.05:
            ppth = 150.
        return S.HvsrTraditionalRotDppProcessingSettings(ppth_percentile_for_rotdpp_computation=ppth,
                                                         azimuths_in_degrees=make_azimuths(rng, allow_bad),
                                                         **common)
    if kind == "azimuthal":
        return S.HvsrAzimuthalProcessingSettings(azimuths_in_degrees=make_azimuths(rng, allow_bad), **common)
    if kind == "diffuse":
        if rng.random() < 0.6:
            common["handle_dissimilar_time_steps_by"] = HANDLE[int(rng.integers(1, 3))]
        return S.HvsrDiffuseFieldProcessingSettings(**common)
    if kind == "psd":
        if rng.random() < 0.3:
            common["smoothing"] = None
        settings = S.PsdProcessingSettings.__new__(S.PsdProcessingSettings)
        smoothing = common.pop("smoothing")
        S.PsdProcessingSettings.__init__(settings, smoothing=smoothing if smoothing is not None else dict(), **common)
        if smoothing is None:
            settings.smoothing = None
        return settings
    raise ValueError(kind)


def clobber_records(records):
    """Overwrite caller-owned inputs (to show results do not alias them)."""
    try:
        iterator = list(records)
    except TypeError:
        return
    for record in iterator:
        if not isinstance(record, SeismicRecording3C):
            continue
        for comp in ("ns", "ew", "vt"):
            amp = getattr(record, comp).amplitude
            if isinstance(amp, np.ndarray) and amp.dtype.kind == "f":
                amp[...] = -7.
        record.meta["clobbered"] = True
        for value in record.meta.values():
            if isinstance(value, list):
                value.append("clobbered")
            if isinstance(value, dict):
                value["clobbered"] = True


def clobber_settings(settings):
    for name in getattr(settings, "attrs", []):
        value = getattr(settings, name, None)
        if isinstance(value, dict):
            for key, item in list(value.items()):
                if isinstance(item, np.ndarray) and item.dtype.kind == "f":
                    item[...] = 1.
                elif isinstance(item, list):
                    item.append(1.)
            value["clobbered"] = 1
        elif isinstance(value, list):
            value.append("clobbered")
        elif isinstance(value, np.ndarray) and value.dtype.kind in "fi":
            value[...] = 0


def clobber_result(result):
    objs = list(result.values()) if isinstance(result, dict) else [result]
    for obj in objs:
        for sub in getattr(obj, "hvsrs", []):
            objs.append(sub)
        meta = getattr(obj, "meta", None)
        if isinstance(meta, dict):
            for value in meta.values():
                if isinstance(value, list):
                    value.append("result-clobbered")
                if isinstance(value, dict):
                    value["result-clobbered"] = True
            meta["result-clobbered"] = True
        for name in ("amplitude", "frequency"):
            arr = getattr(obj, name, None)
            if isinstance(arr, np.ndarray):
                arr[...] = 5.


def file_contents(result, tmpdir, label):
    """Contents of the files written from a result."""
    out = []
    objs = result if isinstance(result, dict) else {"hvsr": result}
    for key, obj in objs.items():
        fname = os.path.join(tmpdir, f"{label}_{key}.txt")
        try:
            if isinstance(obj, Psd):
                np.savetxt(fname, np.column_stack((obj.frequency, obj.amplitude)), delimiter=",")
            else:
                hvsrpy.write_hvsr_object_to_file(obj, fname)
            with open(fname, "rb") as f:
                out.append((key, hashlib.sha256(f.read()).hexdigest()))
        except Exception as e:  # noqa
            out.append((key, f"raised {type(e).__name__}: {e}"))
        finally:
            if os.path.exists(fname):
                os.remove(fname)
    return out


# --------------------------------------------------------------------------
# scenarios
# --------------------------------------------------------------------------

def scenario_process(seed, tmpdir):
    """process() end to end: results, files, input state, independence, reuse."""
    rng = np.random.default_rng(seed)
    special = rng.random() < 0.15
    records = make_records(rng, special=special)
    settings = make_processing_settings(rng, records)
    label = f"process:{type(settings).__name__[4:-18]}:{seed}"
    emit(label, "inputs", records, settings)

    ok, result = observe(label, hvsrpy.process, records, settings)
    emit("inputs-after", records, settings)
    if ok:
        with warnings.catch_warnings():
            warnings.simplefilter("ignore")
            emit("files", file_contents(result, tmpdir, f"p{seed}"))

    # same settings object again, possibly with other records.
    roll = rng.random()
    if roll < 0.5:
        again = records
    elif roll < 0.8:
        again = make_records(rng, special=False)
    else:
        again = list(records)[::-1]
    ok2, result2 = observe(label + ":again", hvsrpy.process, again, settings)
    emit("inputs-after-again", again, settings)

    # results must not alias inputs, inputs must not alias results.
    if ok:
        snapshot = enc(result)
        clobber_records(records)
        clobber_settings(settings)
        emit("independent-of-inputs", enc(result) == snapshot, result)
        clobber_result(result)
        if ok2:
            emit("again-independent-of-first", result2)


DIRECT = {
    "traditional": P.traditional_hvsr_processing,
    "single": P.traditional_single_azimuth_hvsr_processing,
    "rotdpp": P.traditional_rotdpp_hvsr_processing,
    "azimuthal": P.azimuthal_hvsr_processing,
    "diffuse": P.diffuse_field_hvsr_processing,
    "psd": P.rpsd,
}


def scenario_direct(seed, tmpdir):
    """Routines called directly: they work on the caller's settings object."""
    rng = np.random.default_rng(seed)
    records = make_records(rng, special=rng.random() < 0.1, max_records=5)
    kind = list(DIRECT)[int(rng.integers(0, len(DIRECT)))]
    settings = make_processing_settings(rng, records, kind=kind)
    label = f"direct:{kind}:{seed}"
    emit(label, records, settings)
    function = DIRECT[kind]
    if rng.random() < 0.25:
        # dispatch through the registers instead.
        function = P.PROCESSING_METHODS.get(getattr(settings, "processing_method", None), function)
    ok, result = observe(label, function, records, settings)
    emit("after", records, settings)
    # a second and third call with the (now modified) settings.
    for repeat in range(2):
        if rng.random() < 0.5:
            records = make_records(rng, max_records=4)
        observe(f"{label}:repeat{repeat}", function, records, settings)
        emit("after", records, settings)
    if ok:
        snapshot = enc(result)
        clobber_records(records)
        clobber_settings(settings)
        emit("independent", enc(result) == snapshot)


def scenario_helpers(seed, tmpdir):
    """Helper functions of the processing module."""
    rng = np.random.default_rng(seed)
    label = f"helpers:{seed}"
    records = make_records(rng, max_records=8, mixed_dt=rng.random() < 0.8)
    kind = ["traditional", "psd", "diffuse", "azimuthal"][int(rng.integers(0, 4))]
    settings = make_processing_settings(rng, records, kind=kind)

    # nextpow2
    for n in [0, 1, 5, 32767, 32768, 32769, int(rng.integers(0, 10**6)), 2.5, 1e5, np.int64(70000), -3, float("inf") if False else 2**20]:
        observe(label + ":nextpow2", P.nextpow2, n)
        observe(label + ":nextpow2", P.nextpow2, n, int(rng.choice([1, 2, 8, 1024])))

    # prepare_fft_settings on assorted containers
    for candidate in (records, [], tuple(records), records[:1], iter(list(records))):
        s = copy.deepcopy(settings)
        observe(label + ":prepare_fft", P.prepare_fft_settings, candidate, s)
        emit(s)
        observe(label + ":prepare_fft2", P.prepare_fft_settings, records, s)
        emit(s)

    # prepare_records_with_inconsistent_dt
    for handle in HANDLE + ["other", np.str_(HANDLE[2])]:
        for candidate in (records, [], list(records)[::-1], tuple(records)):
            s = copy.deepcopy(settings)
            s.handle_dissimilar_time_steps_by = handle
            ok, value = observe(label + ":prepare_records", P.prepare_records_with_inconsistent_dt, candidate, s)
            if ok and value is not None:
                kept, counts = value
                positions = [[i for i, r in enumerate(candidate) if r is k] for k in kept]
                emit("kept", positions, kept is candidate, type(kept).__name__, counts)

    # check_nyquist_frequency
    for dt in [0.01, 0.004, 1, np.float64(0.02), 0, -0.01]:
        for fcs in [np.array([1., 10., 49.9]), [50., 1.], (50.0001,), np.array([]), np.array([np.nan, 60.]),
                    np.array([60., np.nan]), np.array(5.), np.array([[1., 2.]]), np.array([[1.], [2.]])]:
            observe(label + ":nyquist", P.check_nyquist_frequency, dt, fcs)

    # horizontal combinations and rotation
    a = np.abs(rng.standard_normal(7))
    b = np.abs(rng.standard_normal(7))
    for name, function in P.COMBINE_HORIZONTAL_REGISTER.items():
        observe(label + f":combine:{name}", function, a, b, settings)
        observe(label + f":combine:{name}", function, a, b)
    for azimuth in [0, 33.3, np.float32(10), -20, 720.5, [0, 90]]:
        observe(label + ":single_azimuth", P.single_azimuth, a, b, azimuth)
    emit(sorted(P.TRADITIONAL_PROCESSING_REGISTER), sorted(P.PROCESSING_METHODS), sorted(PP.PREPROCESSING_METHODS))

    # _result_meta
    ok, meta = observe(label + ":result_meta", P._result_meta, records, settings)
    if ok:
        meta["x"] = 1
        for value in meta.values():
            if isinstance(value, (list, dict)):
                value.clear()
        emit("after-meta-clobber", records[0].meta, settings)

    # _rpds_single_component
    psd_settings = make_processing_settings(rng, records, kind="psd")
    for prepared in (False, True):
        s = copy.deepcopy(psd_settings)
        if prepared:
            observe(label + ":rpds:prepare", P.prepare_fft_settings, records, s)
        for comp in ("ns", "vt"):
            series = [getattr(r, comp) for r in records]
            observe(label + f":rpds:{prepared}", P._rpds_single_component, series, s)
            observe(label + f":rpds1:{prepared}", P._rpds_single_component, series[:1], s)
            observe(label + f":rpdsT:{prepared}", P._rpds_single_component, tuple(series), s)
        observe(label + f":rpds0:{prepared}", P._rpds_single_component, [], s)
        emit("rpds-after", records, s)


def scenario_odd_records(seed, tmpdir):
    """Records in unusual (but constructible) states and odd containers."""
    rng = np.random.default_rng(seed)
    label = f"odd:{seed}"
    records = list(make_records(rng, max_records=4))
    kind = ["traditional", "single", "rotdpp", "azimuthal", "diffuse", "psd"][int(rng.integers(0, 6))]
    settings = make_processing_settings(rng, records, kind=kind, allow_bad=False)
    roll = int(rng.integers(0, 9))
    victim = records[int(rng.integers(0, len(records)))]
    if roll == 0:      # horizontals of unequal length
        victim.ew.amplitude = victim.ew.amplitude[:-3]
    elif roll == 1:    # vertical shorter than horizontals
        victim.vt.amplitude = victim.vt.amplitude[:len(victim.vt.amplitude)//2]
    elif roll == 2:    # vertical longer than horizontals (and than any fft length found from it)
        victim.ns.amplitude = np.concatenate((victim.ns.amplitude, victim.ns.amplitude))
        victim.ew.amplitude = np.concatenate((victim.ew.amplitude, victim.ew.amplitude))
    elif roll == 3:    # components with slightly different dt
        victim.vt.dt_in_seconds = victim.vt.dt_in_seconds*(1+1e-10)
        victim.ew.dt_in_seconds = victim.ew.dt_in_seconds*(1-1e-10)
    elif roll == 4:    # very short records
        for comp in ("ns", "ew", "vt"):
            getattr(victim, comp).amplitude = getattr(victim, comp).amplitude[:int(rng.integers(1, 4))]
    elif roll == 5:    # same record object several times
        records = [victim, victim] + records
    elif roll == 6:    # non-contiguous / read-only amplitude
        for comp in ("ns", "ew", "vt"):
            big = np.repeat(getattr(victim, comp).amplitude, 2)
            view = big[::2]
            view.flags.writeable = False
            getattr(victim, comp).amplitude = view
    elif roll == 7:    # integer dt
        for record in records:
            for comp in ("ns", "ew", "vt"):
                getattr(record, comp).dt_in_seconds = 1
        settings.smoothing["center_frequencies_in_hz"] = np.array([0.05, 0.1, 0.3, 0.45])
    elif roll == 8:    # something that is not a record
        records = records + [None]
    containers = [records, tuple(records), np.array(records, dtype=object)]
    given = containers[int(rng.integers(0, 3))]
    emit(label, kind, roll, list(given), settings)
    observe(label, hvsrpy.process, given, settings)
    emit("after", list(given), settings)
    observe(label + ":direct", DIRECT[kind], given, settings)
    emit("after-direct", list(given), settings)
    for bad in (None, 5, victim, {}, iter(records), (r for r in records)):
        observe(label + ":container", hvsrpy.process, bad, settings)


def make_preprocessing_settings(rng, records, kind):
    fnyq = 1/(2*max(r.ns.dt_in_seconds for r in records))
    orient = [0., None, 45., np.float64(30.), -20, 360, 0][int(rng.integers(0, 7))]
    corners = [[None, None], [None, None], (0.2, None), [None, 0.6*fnyq], [0.3, 0.5*fnyq],
               np.array([0.5, 0.4*fnyq]), (np.float64(0.25), None), [None, 0.3*fnyq], [0.1, 0.45*fnyq],
               [None, None], (0.4, 0.7*fnyq), [0.2, None],
               [0.5, 2*fnyq], [None], [0.3, 0.2]][int(rng.integers(0, 15))]
    shortest = min((r.ns.n_samples-1)*r.ns.dt_in_seconds for r in records)
    window_length = [None, shortest/3.3, shortest/2, shortest, 1., np.float64(shortest/4),
                     int(max(1, shortest//2)), shortest/5.7, None, 0.5, shortest/2.5, 0.77,
                     10*shortest][int(rng.integers(0, 13))]
    detrend = ["linear", "constant", "none", None, "linear", "constant", "linear", "none", "linear",
               "quadratic"][int(rng.integers(0, 10))]
    ignore = bool(rng.random() < 0.4)
    common = dict(orient_to_degrees_from_north=orient,
                  filter_corner_frequencies_in_hz=corners,
                  window_length_in_seconds=window_length,
                  detrend=detrend,
                  ignore_dissimilar_time_step_warning=ignore)
    if kind == "hvsr":
        return S.HvsrPreProcessingSettings(**common)
    itf = None
    if rng.random() < 0.4:
        itf = InstrumentTransferFunction(poles=[-4.44+4.44j, -4.44-4.44j, -1.083+0j],
                                         zeros=[0j, 0j, 0j],
                                         instrument_sensitivity=float(rng.uniform(100, 1000)),
                                         normalization_factor=1.0)
    fft = [None, {}, dict(n=None), dict(n=4096), dict(n=np.int64(65536)), dict(n=None, norm="ortho"),
           dict(n=None, bogus=2)][int(rng.integers(0, 7))]
    return S.PsdPreProcessingSettings(window_type_and_width=make_window(rng, allow_bad=rng.random() < 0.3),
                                      fft_settings=fft,
                                      instrument_transfer_function=itf,
                                      differentiate=bool(rng.random() < 0.4),
                                      **common)


def scenario_preprocess(seed, tmpdir):
    """preprocess(): outputs, in-place effects on the inputs, aliasing, reuse."""
    rng = np.random.default_rng(seed)
    kind = "hvsr" if rng.random() < 0.5 else "psd"
    records = make_records(rng, special=rng.random() < 0.08, max_records=4,
                           mixed_dt=rng.random() < 0.35)
    settings = make_preprocessing_settings(rng, records, kind)
    label = f"preprocess:{kind}:{seed}"
    roll = rng.random()
    given = records
    if roll < 0.2:
        given = records[0]
    elif roll < 0.25:
        given = []
    elif roll < 0.3:
        given = iter(list(records))
    elif roll < 0.35:
        given = np.array(list(records), dtype=object)
    emit(label, records, settings)
    function = hvsrpy.preprocess if rng.random() < 0.7 else PP.PREPROCESSING_METHODS[kind]
    ok, windows = observe(label, function, given, settings)
    emit("after", records, settings)
    if ok:
        pool = list(records)
        emit("aliasing", [[i for i, r in enumerate(pool) if w is r] for w in windows],
             type(windows).__name__,
             [w.ns.amplitude.base is None for w in windows],
             [any(np.shares_memory(w.ns.amplitude, r.ns.amplitude) for r in pool) for w in windows])
        # meta of the windows must not be tied to each other.
        if len(windows) > 1:
            windows[0].meta["only-first"] = True
            emit("meta-ties", ["only-first" in w.meta for w in windows], ["only-first" in r.meta for r in pool])
    # reuse of the settings with the (already preprocessed) or new records.
    again = records if rng.random() < 0.5 else make_records(rng, max_records=3)
    observe(label + ":again", function, again, settings)
    emit("after-again", again, settings)
    # straight into processing.
    if ok and len(windows) and rng.random() < 0.6:
        p_kind = "psd" if kind == "psd" else ["traditional", "single", "rotdpp", "azimuthal", "diffuse"][int(rng.integers(0, 5))]
        p_settings = make_processing_settings(rng, windows, kind=p_kind, allow_bad=False)
        ok2, result = observe(label + ":process", hvsrpy.process, windows, p_settings)
        emit("after-process", windows, p_settings)
        if ok2:
            with warnings.catch_warnings():
                warnings.simplefilter("ignore")
                emit("files", file_contents(result, tmpdir, f"pp{seed}"))


def scenario_azimuthal_vs_single(seed, tmpdir):
    """Every azimuth of an azimuthal result against a single-azimuth run."""
    rng = np.random.default_rng(seed)
    records = make_records(rng, max_records=5)
    settings = make_processing_settings(rng, records, kind="azimuthal", allow_bad=False)
    label = f"az-vs-single:{seed}"
    ok, result = observe(label, hvsrpy.process, records, settings)
    if not ok:
        return
    same = []
    for hvsr, azimuth in zip(result.hvsrs, result.azimuths):
        single = S.HvsrTraditionalSingleAzimuthProcessingSettings(
            window_type_and_width=settings.window_type_and_width,
            smoothing=settings.smoothing,
            fft_settings=settings.fft_settings,
            handle_dissimilar_time_steps_by=settings.handle_dissimilar_time_steps_by,
            azimuth_in_degrees=azimuth)
        with warnings.catch_warnings():
            warnings.simplefilter("ignore")
            try:
                alone = hvsrpy.process(records, single)
                same.append(bool(np.array_equal(alone.amplitude, hvsr.amplitude)))
            except Exception as e:  # noqa
                same.append(type(e).__name__)
    emit("same-as-single", same)
    # each record alone gives the same curve as within the set (same fft length).
    if settings.handle_dissimilar_time_steps_by == "frequency_domain_resampling":
        n = P.nextpow2(max(r.vt.n_samples for r in records))
        trad = S.HvsrTraditionalProcessingSettings(window_type_and_width=settings.window_type_and_width,
                                                   smoothing=settings.smoothing,
                                                   fft_settings=dict(n=max(n, (settings.fft_settings or {}).get("n") or 0)),
                                                   method_to_combine_horizontals=COMBINE[int(rng.integers(0, len(COMBINE)))])
        with warnings.catch_warnings():
            warnings.simplefilter("ignore")
            try:
                together = hvsrpy.process(records, trad).amplitude
                alone = [hvsrpy.process([r], trad).amplitude[0] for r in records]
                emit("alone-vs-together", [bool(np.array_equal(a, t)) for a, t in zip(alone, together)], together)
            except Exception as e:  # noqa
                emit("alone-vs-together", type(e).__name__, str(e))


def scenario_many_groups(seed, tmpdir):
    """Many records with interleaved time steps; every kind on the same records."""
    rng = np.random.default_rng(seed)
    n_records = int(rng.integers(8, 21))
    dts = [DTS[i] for i in rng.permutation(len(DTS))[:int(rng.integers(2, 6))]]
    records = [make_record(rng, int(rng.integers(120, 700)), dts[int(rng.integers(0, len(dts)))],
                           RECORD_KINDS[int(rng.integers(0, 8))], with_meta=(idx == 0))
               for idx in range(n_records)]
    label = f"many:{seed}"
    emit(label, records)
    results = {}
    for kind in ("traditional", "single", "rotdpp", "azimuthal", "diffuse", "psd"):
        settings = make_processing_settings(rng, records, kind=kind, allow_bad=False)
        if kind == "psd":
            settings.handle_dissimilar_time_steps_by = "frequency_domain_resampling"
        emit(settings)
        ok, result = observe(f"{label}:{kind}", hvsrpy.process, records, settings)
        if ok:
            results[kind] = result
        # reversed and rotated record order.
        observe(f"{label}:{kind}:reversed", hvsrpy.process, records[::-1], settings)
        shift = int(rng.integers(1, n_records))
        observe(f"{label}:{kind}:rotated", hvsrpy.process, records[shift:] + records[:shift], settings)
    emit("inputs-after", records)
    with warnings.catch_warnings():
        warnings.simplefilter("ignore")
        for kind, result in results.items():
            emit("files", kind, file_contents(result, tmpdir, f"m{seed}{kind}"))


def main():
    np.seterr(all="warn")
    with tempfile.TemporaryDirectory(dir=HERE, prefix="equiv_tmp_") as tmpdir:
        for seed in range(1000, 1260):
            scenario_process(seed, tmpdir)
        for seed in range(2000, 2140):
            scenario_direct(seed, tmpdir)
        for seed in range(3000, 3012):
            scenario_helpers(seed, tmpdir)
        for seed in range(4000, 4090):
            scenario_odd_records(seed, tmpdir)
        for seed in range(5000, 5200):
            scenario_preprocess(seed, tmpdir)
        for seed in range(6000, 6030):
            scenario_azimuthal_vs_single(seed, tmpdir)
        for seed in range(7000, 7020):
            scenario_many_groups(seed, tmpdir)
    if VERBOSE:
        print(f"hvsrpy imported from {os.path.dirname(hvsrpy.__file__)}", file=sys.stderr)
        for key, (n_ok, n_raised, n_warn, n_print) in sorted(STATS.items()):
            print(f"{key:28s} ok={n_ok:5d} raised={n_raised:5d} warnings={n_warn:4d} printed={n_print:4d}", file=sys.stderr)
    print(f"DIGEST {DIGEST.hexdigest()}")


if __name__ == "__main__":
    main()
