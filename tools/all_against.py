#!/usr/bin/env python3
"""usage: all_against.py <patch> [budget_s] -- run every quick check against a scratch copy of the package with the
patch applied and print each exit code (a behaviour-preserving change must give 0 everywhere)."""
import os, sys
sys.path.insert(0, os.path.dirname(os.path.dirname(os.path.abspath(__file__))))
from sim.selftest import run_against_patch
from sim.check import MACHINE_OF
patch = os.path.abspath(sys.argv[1])
budget = sys.argv[2] if len(sys.argv) > 2 else None
bad = 0
for prop in sorted(MACHINE_OF):
    code, tail = run_against_patch(prop, patch, budget=budget)
    line = [l for l in tail.splitlines() if "oracle=" in l or "HARNESS" in l or l.startswith("OK") or "detail=" in l]
    print(prop, "exit", code, "|", " ".join(l.strip() for l in line)[:260], flush=True)
    bad += code != 0
sys.exit(1 if bad else 0)
