#!/usr/bin/env python3
"""Regenerate /verif/MANIFEST.json from the tables below (keeps it valid)."""
import json
import os
import subprocess
import sys

HERE = os.path.dirname(os.path.dirname(os.path.abspath(__file__)))

NA = {
    "C01": "pure function of one process() call's arguments (record, settings) -> curve; no schedule, storage, fault or history can change it. History-dependent effects of process() are judged under C03/C09/C19.",
    "C02": "seven stateless smoothing kernels; 'compiled == interpreted' compares two implementations on equal inputs, there is no interleaving, clock, I/O or fault for a simulator to own (numba's on-disk cache is neutralised, DESIGN 2.11).",
    "C04": "rotation / periodicity / percentile identities between pure numeric calls; the only state is a scalar the identities are stated in terms of.",
    "C10": "windows are a function of (record, settings) alone: index arithmetic and step order inside one call; nothing history-, schedule- or storage-dependent.",
    "C14": "convex geometry plus a Monte-Carlo whose generator is an explicit argument: given the generator nothing nondeterministic is left to control.",
    "C16": "two pure functions of arrays and scalars returning verdict vectors.",
    "C17": "Parseval/Welch normalisation and analytic preprocessing identities of single calls; no state, schedule or storage involved.",
}

TEXT = {
    "C03": ("batch", "3.1", "seeded search over histories of process() calls on a shared pool of recordings and shared settings objects; every returned row is compared with the solo result at the same FFT length, the kept set with a model of the two keeping policies",
            "trusts numpy/scipy and the solo process() call as the per-row reference (row bookkeeping, not spectral values, is what is judged)"),
    "C05": ("hvsrobj", "3.2", "seeded search over operation histories (range updates, FDWRA, STA/LTA and max-value rejection with the object attached, manual rejection through SimUser, mask edits) on HvsrTraditional; after every step every statistic accessor is compared with textbook estimators over exactly the accepted rows, with an object rebuilt from the accepted rows and with a twin whose rejected rows are garbage",
            "trusts numpy and the 60-line stats model; per-window peaks are taken from the public HvsrCurve API (peak finding is C08's business)"),
    "C06": ("hvsrobj", "3.2", "seeded search over entry states reached by histories and over (n, max_iterations, distributions, range); refinement of masks and iteration count against a reference implementation of Cox et al. (2020), per-iteration monotonicity from the DEBUG trace, integer return in 1..max_iterations, permutation and rescaling twins",
            "trusts the reference model (models/fdwra.py) and the peak model; float-tie cases are counted but not judged"),
    "C08": ("hvsrobj", "3.2", "seeded search over sequences of range updates and rejections on all four object kinds holding the same curves; an independent 'highest interior local maximum' model judges every reported peak, the mean-curve peak and absence after every operation",
            "trusts the peak model (models/peaks.py); with custom find_peaks kwargs only the weaker 'is an interior local maximum with the curve's amplitude' is judged"),
    "C11": ("hvsrobj", "3.2", "seeded search over per-azimuth mask histories on HvsrAzimuthal; every accessor against the Cheng et al. (2020) weighted estimators, reductions (one azimuth = traditional, equal counts = pooled), azimuth permutation, rebuilt-from-accepted object, garbage in rejected rows",
            "trusts numpy and the weighted stats model"),
    "C12": ("hvsrobj", "3.2", "seeded search over histories before the write plus storage faults on a simulated disk under the real I/O stack; read-back object vs written object (curves bitwise, masks, range, peaks, every statistic), the file's derived columns vs the object, second-generation identity, and lock-step continuation of the history on both objects",
            "trusts the strict parser of the file format and SimFS; a torn file from a failed or crashed write is probe-counted only (the property speaks of completed writes)"),
    "C13": ("hvsrobj", "3.2", "seeded search over histories of the attached result object (range updates, frequency-domain / manual rejections, mask edits, earlier time-domain rejections) and over the container, order and identity of the window list; after every STA/LTA or maximum-value rejection the returned windows must be the given objects in order, both accept masks of every azimuth must equal that selection whatever state the history left, the selection must not depend on the attached object, the windows must be unchanged; verdicts are judged against a reference only where the property says 'clearly', plus model-free twins (rescaling, widened limits, conjunction of components, window alone, permuted list, repeated call)",
            "the per-window decision itself is a pure function (judged as a by-product, only for clear cases); the history/identity clauses are what the simulator owns; trusts models/stalta.py"),
    "C20": ("hvsrobj", "3.2", "seeded search over object states reached by histories, plotting options and injected exceptions inside plotting calls on the Agg back end; snapshot before == after (also on exception exit) and drawn artists / captured table == object state",
            "artists are judged, not pixels; Agg back end only"),
    "C07": ("reader", "3.3", "seeded search over stored layouts (8 formats), trace/file orders, read() argument routing and storage faults (torn, dropped, duplicated, flipped, CRLF, header-count mismatch, read errors) between recorder and reader; exact samples/dt/orientation when intact, must-raise for the cases the property names, raise-or-exact under other damage",
            "trusts obspy's writers as the recorder for miniSEED/SAC/GCF and my encoders for SAF/MiniShark/PEER"),
    "C15": ("settings", "3.4", "seeded search over construct/mutate/save/load/dispatch histories across all eight settings classes on a simulated disk with write/read faults; content equality and same class after round trip, equal processing result, frame condition over all other live objects and pristine defaults",
            "trusts SimFS and the snapshot comparison"),
    "C18": ("recording", "3.5", "seeded search over trim/filter/detrend/taper/orient/split/copy/edit/save/load histories on a simulated disk with faults; bitwise round trip, frame condition plus np.shares_memory over all live objects, nearest-sample trim model",
            "trusts SimFS, the snapshot comparison and the trim model"),
    "C19": ("cli", "3.6", "seeded search over argv order, --nproc, the chunking it induces and the interleaving of real forked workers driven in lock-step by SimPool under a simulated clock; every <stem>.csv is compared with the file produced for that input alone with freshly loaded settings",
            "real click parsing, pickle, Pool._get_tasks chunking and library pipeline; queues and process management are stubs; fork start method only"),
    "C09": ("batch", "3.1", "seeded search over repeated and interleaved process() calls, later mutation of inputs and exception exits; deep snapshots of every recording and of every earlier result must be unchanged, repeat calls must return identical results, results share no memory with inputs",
            "trusts the deep snapshot (traverses every attribute reachable from the public objects)"),
}


def built():
    """A property is registered once its machine module exists and exports it."""
    out = []
    sys.path.insert(0, HERE)
    for pid, (mach, *_rest) in sorted(TEXT.items()):
        path = os.path.join(HERE, "sim", "machines", mach + ".py")
        if not os.path.exists(path):
            continue
        src = open(path).read()
        if f'"{pid}"' in src.split("PROPS", 1)[-1].split("\n", 1)[0]:
            out.append(pid)
    return out


def main():
    checks = []
    for pid in built():
        mach, ref, text, note = TEXT[pid]
        checks.append({
            "property_id": pid,
            "quick_cmd": f"/venv/bin/python -m sim.check {pid} --tier quick",
            "thorough_cmd": f"/venv/bin/python -m sim.check {pid} --tier thorough",
            "evidence_file": f"/verif/evidence/{pid}.json",
            "replay_cmd_template": f"/venv/bin/python -m sim.check {pid} --replay {{path}}",
            "engine": mach,
            "level_claimed": {"category": "exploration", "text": text + ". Seeded sampling, not enumeration: a clean batch is evidence, not proof.",
                              "design_ref": "DESIGN.md section " + ref},
            "level_note": note,
            "technique": "deterministic simulation with fault injection: seeded search over operation/schedule/fault sequences against a reference model, ddmin-minimised replay files",
        })
    claimed = {c["property_id"] for c in checks}
    na = [{"property_id": k, "reason": v} for k, v in sorted(NA.items())]
    for pid in sorted(TEXT):
        if pid not in claimed:
            na.append({"property_id": pid, "reason": "check not built yet in this tree (planned, see DESIGN.md); not claimed until its machine exists"})
    engines = {}
    for c in checks:
        engines.setdefault(c["engine"], []).append(c["property_id"])
    man = {
        "version": 1,
        "setup_cmd": "/venv/bin/python -m sim.setup",
        "hooks": {"guard": "HVSRPY_VERIF", "enable": "no source hooks: every seam is a module attribute replaced at run time inside the check's own process (DESIGN 2.2); checks import /repo's working tree directly",
                  "baseline_off_cmd": "cd /repo && /venv/bin/python -m pytest -ra -q -p no:cacheprovider --timeout=900 --continue-on-collection-errors",
                  "source_commits": [], "add_only": True},
        "engines": [{"name": k, "path": f"/verif/sim/machines/{k}.py", "serves_properties": v,
                     "kind_free_text": "seeded deterministic simulator (own PRNG-driven generator, event log, ddmin minimiser, replay)"}
                    for k, v in sorted(engines.items())],
        "checks": checks,
        "not_applicable": na,
        "notes": "All checks: exit 0 = held, 1 = VIOLATION line + replay file, 2 = HARNESS-ERROR. VERIF_SEED selects the batch; VERIF_BUDGET_S / VERIF_RUNS override the search budget. known_findings.json is read-only at run time.",
    }
    with open(os.path.join(HERE, "MANIFEST.json"), "w") as f:
        json.dump(man, f, indent=1)
    print("claimed:", sorted(claimed))


if __name__ == "__main__":
    main()
