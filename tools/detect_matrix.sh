#!/bin/bash
# usage: detect_matrix.sh <seed>...   -- for each VERIF_SEED run every seeded change and every mutant through its quick check
cd "$(dirname "$0")/.."
for seed in "$@"; do
  echo "##### VERIF_SEED=$seed"
  VERIF_SEED=$seed /venv/bin/python -m sim.selftest seeded 2>&1 | grep "^seeded"
  VERIF_SEED=$seed /venv/bin/python -m sim.selftest sensitivity 2>&1 | grep "^sensitivity"
done
