#!/bin/bash
# usage: thorough_all.sh [seed] [props...]  -- thorough tier of every check, one after the other
cd "$(dirname "$0")/.."
SEED=${1:-0}; shift
PROPS=${@:-C03 C05 C06 C07 C08 C09 C11 C12 C13 C15 C18 C19 C20}
for p in $PROPS; do
  VERIF_SEED=$SEED timeout 3600 /venv/bin/python -m sim.check $p --tier thorough 2>&1 | grep -v Warning | tail -6
done
