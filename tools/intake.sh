#!/bin/bash
# usage: intake.sh <round_dir> <PROP> <letter>   -- confirm a sub-agent's change, file it, run the property's quick check against it
D=$1; P=$2; L=$3
/verif/tools/confirm_seeded.sh $D/$P/_seeded $P-$L $P 2>&1 | tail -3
[ -d /verif/seeded/$P-$L ] || exit 1
cd /verif && /venv/bin/python tools/try_patch.py $P /verif/seeded/$P-$L/patch.diff 2>&1 | grep -v Warning | tail -5
