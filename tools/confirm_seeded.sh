#!/bin/bash
# usage: confirm_seeded.sh <source_dir_with_patch.diff_and_demo.py> <seeded_id> <property>
# Confirms, in a fresh scratch worktree of /repo (removed afterwards), that the patch applies, the package
# imports, the pinned suite still passes (157 passed / the 3 known failures) and the demonstration fails with
# the change and passes without it; then files the change under /verif/seeded/<id>/.
set -u
SRC=$1; ID=$2; PROP=$3
WT=$(mktemp -d /tmp/confirm_XXXXXX)
rmdir "$WT"
git -C /repo worktree add -q --detach "$WT" HEAD || exit 2
cleanup() { git -C /repo worktree remove --force "$WT" 2>/dev/null; rm -rf "$WT"; }
trap cleanup EXIT
cd "$WT"
export MPLBACKEND=Agg
export PYTHONPATH="$WT"
mkdir -p "$WT/_seeded" && cp "$SRC/demo.py" "$WT/_seeded/demo.py"
echo "== demo on unchanged tree"
timeout 600 /venv/bin/python "$WT/_seeded/demo.py" > /tmp/confirm_$ID.base.log 2>&1; BASE=$?
echo "   exit $BASE"
git apply "$SRC/patch.diff" || { echo "PATCH DOES NOT APPLY"; exit 2; }
echo "== demo with the change"
timeout 600 /venv/bin/python "$WT/_seeded/demo.py" > /tmp/confirm_$ID.mut.log 2>&1; MUT=$?
echo "   exit $MUT"; tail -3 /tmp/confirm_$ID.mut.log
echo "== test suite with the change"
timeout 1800 /venv/bin/python -m pytest -q -p no:cacheprovider --timeout=900 test/ 2>&1 | tail -6 > /tmp/confirm_$ID.suite.log
cat /tmp/confirm_$ID.suite.log
SUITE=$(grep -c "3 failed, 157 passed" /tmp/confirm_$ID.suite.log)
if [ "$BASE" = "0" ] && [ "$MUT" != "0" ] && [ "$SUITE" = "1" ]; then
  mkdir -p /verif/seeded/$ID
  cp "$SRC/patch.diff" "$SRC/demo.py" /verif/seeded/$ID/
  [ -f "$SRC/notes.md" ] && cp "$SRC/notes.md" /verif/seeded/$ID/notes.md
  echo "CONFIRMED $ID ($PROP)"
  exit 0
fi
echo "NOT CONFIRMED $ID: base=$BASE mut=$MUT suite_ok=$SUITE"
exit 1
