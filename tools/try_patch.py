#!/usr/bin/env python3
"""usage: try_patch.py <PROP> <patch> [runs]  -- run the quick check of PROP against a scratch copy with the patch"""
import sys, os
sys.path.insert(0, os.path.dirname(os.path.dirname(os.path.abspath(__file__))))
from sim.selftest import run_against_patch
code, tail = run_against_patch(sys.argv[1], sys.argv[2], runs=int(sys.argv[3]) if len(sys.argv) > 3 else None)
print("exit", code)
print(tail)
