#!/bin/bash
# usage: soak.sh <first_seed> <last_seed> <budget_s> [props...]   -- many batch seeds, short budgets; prints every non-OK result
A=$1; B=$2; BUD=$3; shift 3
PROPS=${@:-C03 C05 C06 C07 C08 C09 C11 C12 C15 C18 C19 C20}
cd "$(dirname "$0")/.."
for seed in $(seq $A $B); do
  for p in $PROPS; do
    out=$(VERIF_SEED=$seed VERIF_BUDGET_S=$BUD timeout 1800 /venv/bin/python -m sim.check $p --tier quick 2>&1 | grep -v Warning | tail -6)
    last=$(echo "$out" | tail -1)
    case "$last" in OK*) echo "seed=$seed $last" | cut -c1-120;; *) echo "seed=$seed prop=$p NOT-OK"; echo "$out";; esac
  done
done
