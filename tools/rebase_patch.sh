#!/bin/bash
# usage: rebase_patch.sh <patch> <worktree-dir>  -- apply the patch at the newest commit of /repo where it still applies, then
# rebase that one commit onto main in a scratch worktree; prints the conflicts (if any) and leaves the worktree for resolution.
P=$1; WT=$2
cd /repo
for c in $(git rev-list main); do
  if git -c core.whitespace=nowarn apply --check "$P" 2>/dev/null --directory= ; then :; fi
  S=$(mktemp -d); git archive $c hvsrpy | tar -x -C $S
  if (cd $S && git init -q . && git apply --check "$P" 2>/dev/null); then rm -rf $S; BASE=$c; break; fi
  rm -rf $S
done
[ -z "$BASE" ] && { echo "no base found"; exit 2; }
echo "base $(git log --oneline -1 $BASE)"
rm -rf "$WT"; git worktree prune; git worktree add -q --detach "$WT" $BASE
cd "$WT" && git apply "$P" && git -c user.name=x -c user.email=x@x commit -qam patch
GIT_EDITOR=true git -c user.name=x -c user.email=x@x rebase -q HEAD~1 --onto main >/dev/null 2>&1
if git status --short | grep -q "^UU\|^AA"; then echo "CONFLICTS:"; git status --short | grep "^UU\|^AA"; exit 1; fi
git diff main HEAD -- hvsrpy > "$WT/patch.rebased.diff"; echo "clean rebase -> $WT/patch.rebased.diff"
